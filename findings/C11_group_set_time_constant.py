from checks import c11
import numpy as np
ss = c11.get_sys()
a = int(ss.GENCLS.omega.a[0])
print('before', ss.dae.Tf[a], ss.GENCLS.M.v)
ss.SynGen.set('M', 'GEN', 'v', 9.0)
print('after group set ', ss.dae.Tf[a], ss.GENCLS.M.v, ss.TDS.Teye[a, a])
ss.SynGen.alter('M', ['GEN'], [7.0])
print('after group alter', ss.dae.Tf[a], ss.GENCLS.M.v, ss.TDS.Teye[a, a])
