"""
Genuine defect on the unchanged tree (C12: islands must be re-detected after
each switching event during simulation).

After a switching event ``TDS.do_switch`` calls ``System.connectivity``, which
(with the default ``TDS.config.criteria = 1``) calls
``SynGen.store_idx_island(<buses of the largest island>)``.  If the largest
island holds no synchronous generator (here: the system has none at all; the
same happens when all machines sit in the smaller island) the intersection is
empty and ``GroupBase.find_idx(keys='bus', values=[])`` raises
``IndexError: list index out of range``.  The simulation is killed by the
connectivity check itself, so no island information is produced for the
post-switching network.

Network: Slack at bus 1, chain 1-2-3 with loads; line 2-3 is opened at t=1 s,
which isolates bus 3.  Expected: simulation continues and bus 3 (uid 2) is
reported as isolated.
"""
import andes

andes.config_logger(stream_level=40)

ss = andes.System(default_config=True, no_output=True)
for i in (1, 2, 3):
    ss.add('Bus', dict(idx=i, name=f'B{i}', Vn=110))
ss.add('Line', dict(idx='L12', bus1=1, bus2=2, r=0.01, x=0.05))
ss.add('Line', dict(idx='L23', bus1=2, bus2=3, r=0.01, x=0.05))
ss.add('PQ', dict(idx='PQ2', bus=2, p0=0.2, q0=0.1))
ss.add('PQ', dict(idx='PQ3', bus=3, p0=0.5, q0=0.3))
ss.add('Slack', dict(idx='S1', bus=1, v0=1.0, a0=0.0))
ss.add('Toggle', dict(model='Line', dev='L23', t=1.0))
ss.setup()

assert ss.PFlow.run()
ss.TDS.config.tf = 2.0
ss.TDS.config.no_tqdm = 1
try:
    ss.TDS.run()
except IndexError as e:
    raise AssertionError(f"connectivity check after the switching event crashed: {e!r}")

print('islanded buses:', ss.Bus.islanded_buses, 'islands:', ss.Bus.islands)
assert ss.Bus.islanded_buses == [2]
assert sorted(map(sorted, ss.Bus.island_sets)) == [[0, 1]]
print('OK')
