"""
Genuine defect on the unchanged tree: the rate limiter of LagRate / LagAntiWindupRate compares the
right-hand side  T*y' = K u - D y  (i.e. y' multiplied by the time constant) with rate_lower/rate_upper instead
of y' itself (block.py even carries a TODO about it).  With T = 2, rate_upper = 1 and K u - y = 1.5 the true
rate is y' = 0.75 < rate_upper, i.e. the block is inside its limits and must behave like the plain Lag,
but the limiter clips the right-hand side to 1.0 (y' = 0.5).     Exits non-zero on the unchanged tree.
"""
import numpy as np
from andes.core.block import LagRate
from andes.core.param import NumParam
from andes.core.var import Algeb


def param(name, values):
    p = NumParam(name=name, tex_name=name)
    p.v = np.array(values, dtype=float)
    return p


u = Algeb(name='u', tex_name='u')
u.v = np.array([1.5])
T, K = param('T', [2.0]), param('K', [1.0])
rlo, rup = param('rlo', [-1.0]), param('rup', [1.0])
blk = LagRate(u=u, T=T, K=K, rate_lower=rlo, rate_upper=rup, name='LG')
blk.export()
blk.y.v = np.array([0.0])
blk.y.e = eval(str(blk.y.e_str), {}, {'u': u.v, 'K': K.v, 'LG_y': blk.y.v}) * np.ones(1)   # = T * y'
unlimited_rate = blk.y.e / T.v
blk.lim.list2array(1)
blk.lim.check_eq()
limited_rate = blk.y.e / T.v
print('dy/dt of the unlimited lag:', unlimited_rate, ' rate_upper:', rup.v, ' dy/dt after the limiter:', limited_rate)
assert unlimited_rate[0] < rup.v[0]
np.testing.assert_allclose(limited_rate, unlimited_rate,
                           err_msg='rate limiter acted although |dy/dt| is inside the rate limits')
