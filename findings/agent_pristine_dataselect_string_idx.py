# Pristine defect: DataSelect (andes/core/service.py) tests the optional index with np.isnan(),
# which raises TypeError for a string index.  A stabilizer whose optional remote bus `busr` is a
# bus with a STRING idx therefore cannot be set up at all (numeric idx works), contradicting
# "for every mix of numeric and string indices".
import andes
andes.config_logger(40)
ss = andes.load(andes.get_case('kundur/kundur_ieeest.xlsx'), setup=False,
                no_output=True, default_config=True)
ss.add('Bus', idx='BX', Vn=20, name='BX')
ss.add('Line', idx='L_X', bus1=1, bus2='BX', Vn1=20, Vn2=20, r=0.001, x=0.05, b=0.0)
ss.IEEEST.busr.v[0] = 'BX'
ss.setup()                                   # TypeError: ufunc 'isnan' not supported ...
assert list(ss.IEEEST.buss.v) == ['BX']
print('ok')
