import andes, numpy as np, sys
andes.config_logger(40)
def run(u):
    ss = andes.load(andes.get_case('kundur/kundur_full.xlsx'), default_config=True, no_output=True, setup=False)
    for nm, val in (('E1', 1.5), ('SE1', 0.1), ('E2', 2.0), ('SE2', 0.3)):
        ss.EXDC2.__dict__[nm].v[0] = val
    ss.EXDC2.u.v[0] = u
    ss.setup()
    ss.PFlow.run()
    ok = ss.TDS.init()
    i=np.argmax(np.abs(ss.dae.fg))
    print(f'exciter u={u}: exit_code={ss.exit_code} max|fg|={np.max(np.abs(ss.dae.fg)):.4g} at {ss.dae.xy_name[i]}  (vf0={ss.EXDC2.vf0.v[0]:.3f}, SAT_A={ss.EXDC2.SAT_A.v[0]:.3f})')
run(1); run(0)
