import andes, sys
import numpy as np
andes.config_logger(20)
ss = andes.load(andes.get_case('ieee14/ieee14.raw'), no_output=True, default_config=True)
df = ss.Line.as_df()
cut = [(6,12),(6,13),(9,14)]
for i, b1, b2 in zip(df.idx, df.bus1, df.bus2):
    if (b1,b2) in cut or (b2,b1) in cut:
        ss.Line.alter('u', i, 0)
pq = ss.PQ.as_df()
for i, b in zip(pq.idx, pq.bus):
    if b in (12,13,14):
        ss.PQ.alter('u', i, 0)
ss.PFlow.config.sparselib = sys.argv[1]
ss.PFlow.solver = type(ss.PFlow.solver)(sys.argv[1])
ok = ss.PFlow.run()
print('pflow', ok, ss.exit_code, ss.PFlow.mis, np.isnan(ss.dae.y).any())
