# Pristine defect candidate: System.reset(force=True) after TDS initialization.  dae.reset() sets
# m = n = o = 0 but keeps the name lists (and the p/q counters), so re-addressing for power flow
# hits "Does not know how to shrink arrays" / leaves stale names.
import andes
andes.config_logger(40)
ss = andes.load(andes.get_case('kundur/kundur_full.xlsx'), no_output=True, default_config=True)
ss.PFlow.run()
ss.TDS.init()
ss.reset(force=True)
assert len(ss.dae.x_name) == ss.dae.n and len(ss.dae.y_name) == ss.dae.m, \
    (len(ss.dae.x_name), ss.dae.n, len(ss.dae.y_name), ss.dae.m)
assert len(ss.dae.h_name) == sum(len(v.r) for m in ss.exist.pflow.values() for v in m.states_ext.values()), 'stale h'
print('ok')
