"""
Genuine defect on the unchanged tree: the Lag variants LagFreeze, LagAWFreeze and LagRate are documented
(class diagram) as K / (D + sT) and accept a `D` argument, but their differential equation is
T y' = K u - y (D is dropped).  For LagAWFreeze the declared initial value IS K u / D, so with a constant
input the initial value does not balance the block's own equation; for LagFreeze/LagRate the steady-state
gain is K instead of the documented K / D.

Checks, symbolically, for each class: (a) residual(e_str) at y = v_str is identically zero,
(b) the steady-state gain solved from e_str equals K / D.   Exits non-zero on the unchanged tree.
"""
import sympy as sp
from andes.core.block import Lag, LagAntiWindup, LagFreeze, LagAWFreeze, LagRate
from andes.core.param import NumParam
from andes.core.var import Algeb

u = Algeb(name='u', tex_name='u')
P = {k: NumParam(name=k, tex_name=k) for k in ('T', 'K', 'D', 'lo', 'up', 'frz')}
S = {k: sp.Symbol(k) for k in ('u', 'T', 'K', 'D', 'lo', 'up', 'frz', 'B_y')}

blocks = {
    'Lag': Lag(u=u, T=P['T'], K=P['K'], D=P['D'], name='B'),
    'LagAntiWindup': LagAntiWindup(u=u, T=P['T'], K=P['K'], D=P['D'], lower=P['lo'], upper=P['up'], name='B'),
    'LagFreeze': LagFreeze(u=u, T=P['T'], K=P['K'], D=P['D'], freeze=P['frz'], name='B'),
    'LagAWFreeze': LagAWFreeze(u=u, T=P['T'], K=P['K'], D=P['D'], lower=P['lo'], upper=P['up'],
                               freeze=P['frz'], name='B'),
    'LagRate': LagRate(u=u, T=P['T'], K=P['K'], D=P['D'], rate_lower=P['lo'], rate_upper=P['up'], name='B'),
}
bad = []
for name, b in blocks.items():
    b.export()
    e = sp.sympify(str(b.y.e_str), locals=S).subs(S['frz'], 0)
    v0 = sp.sympify(str(b.y.v_str), locals=S)
    res0 = sp.simplify(e.subs(S['B_y'], v0))
    gain = sp.simplify(sp.solve(e, S['B_y'])[0] / S['u'])
    ok = (res0 == 0) and sp.simplify(gain - S['K'] / S['D']) == 0
    print(f'{name:14s} residual at declared initial value: {res0};  steady-state gain: {gain}')
    if not ok:
        bad.append(name)
assert not bad, f'blocks not realising K/(D+sT) from steady state: {bad}'
