"""C08: after EIG.sweep the counts / participation factors stored in EIG are those of the earlier run(),
next to the eigenvalues of the last sweep point.  Exits non-zero when the defect is present."""
import sys
import numpy as np
import andes

ss = andes.load(andes.get_case('kundur/kundur_full.xlsx'), default_config=True, no_output=True)
ss.PFlow.run()
ss.EIG.run()
pf0 = np.array(ss.EIG.pfactors)
# a large negative damping makes the swing modes unstable
ss.EIG.sweep(ss.GENROU.D, ss.GENROU.idx.v[0], [-200.0])
mu = ss.EIG.mu
tol = ss.EIG.config.tol
pos = int(np.count_nonzero(mu.real > tol))
zer = int(np.count_nonzero(abs(mu.real) <= tol))
neg = int(np.count_nonzero(mu.real < -tol))
print('stored eigenvalues: +%d 0:%d -%d ; stored counts: +%d 0:%d -%d' % (pos, zer, neg, ss.EIG.n_positive, ss.EIG.n_zeros, ss.EIG.n_negative))
bad = (pos, zer, neg) != (ss.EIG.n_positive, ss.EIG.n_zeros, ss.EIG.n_negative)
_, pf1, _, _ = ss.EIG.calc_pfactor()
if not np.allclose(pf1, ss.EIG.pfactors):
    print('participation factors are those of the earlier run()')
    bad = True
sys.exit(1 if bad else 0)
