"""
Genuine defect on the UNCHANGED tree (property C09, `Switcher`).

A `Switcher` exports one 0/1 flag per option that must equal (u == option) for the
current value of its input parameter.  The flags are evaluated once at setup and cached
(`cache=True`, `_eval`); neither `Model.set` nor `Model.alter` invalidates that cache.
After changing the input-selection parameter of a device through the public API
(`ss.IEEEST.alter('MODE', idx, 3)`), every later `l_update_var` keeps the old flags, so
the equations keep using the old input signal although the parameter says otherwise.

Exits non-zero on the unchanged tree.
"""
import numpy as np
import andes

andes.config_logger(stream_level=40)
ss = andes.load(andes.get_case('kundur/kundur_ieeest.xlsx'), no_output=True, default_config=True)
mdl = ss.IEEEST
assert mdl.n > 0
idx = mdl.idx.v[0]
old = int(mdl.MODE.v[0])
new = 3 if old != 3 else 1

ss.PFlow.run()
ss.TDS.init()

mdl.alter('MODE', idx, new)
assert int(mdl.MODE.v[0]) == new
ss.l_update_var(ss.exist.pflow_tds)     # the call every TDS iteration uses to refresh discrete flags

flags = [int(getattr(mdl.SW, f's{i}')[0]) for i in range(len(mdl.SW.options))]
expected = [int(opt == new) for opt in mdl.SW.options]
print("MODE", old, "->", new, "flags", flags, "expected", expected)
assert flags == expected, "Switcher flags do not follow the altered parameter (stale cache)"
print("OK")
