# Pristine-tree observation: the JSON writer uses the cached input DataFrame
# (model.cache.df_in) without refreshing it, so a case exported to JSON a second
# time (or after anything touched cache.df_in) does not contain values changed by
# Model.alter().  The xlsx writer refreshes the cache and is not affected.
import io, json
import andes
andes.config_logger(50)
ss = andes.load(andes.get_case('kundur/kundur_full.xlsx'), default_config=True, no_output=True)
buf = io.StringIO()
andes.io.json.write(ss, buf)             # first export populates cache.df_in
idx = ss.GENROU.idx.v[0]
ss.GENROU.alter('xd', idx, 2.5)          # input-base value now 2.5
assert ss.GENROU.xd.vin[0] == 2.5
buf2 = io.StringIO()
andes.io.json.write(ss, buf2)            # second export
xd_written = json.loads(buf2.getvalue())['GENROU'][0]['xd']
print('vin =', ss.GENROU.xd.vin[0], ' written =', xd_written)
assert xd_written == 2.5, "JSON export after alter wrote stale value %s" % xd_written
