"""
Behaviour of the UNCHANGED tree that contradicts property C05 (offline dynamic devices):

Only the synchronous machines (GENBase.v_numeric) look at their own `u` before they switch the
static device off.  ZIP, FLoad, PVD1, REGCA1, REGCP1, REGCV1, REGF1, PLBVFU1 ... set
`u = 0` on the linked PQ / StaticGen unconditionally.  An OFFLINE dynamic device (u = 0)
therefore removes the static injection without replacing it: the bus injection after
TDS.init() is no longer that of the power flow and initialisation reports failure for
perfectly consistent data.

Prints one line per case; exits 1 if any of them fails to initialise.
"""
import sys
import numpy as np
import andes

andes.config_logger(stream_level=50)

bad = 0
for case, model in (('ieee14/ieee14_zip.json', 'ZIP'),
                    ('ieee14/ieee14_fload.json', 'FLoad'),
                    ('ieee14/ieee14_pvd1.json', 'PVD1')):
    ss = andes.load(andes.get_case(case), setup=False, no_output=True, default_config=True)
    mdl = ss.__dict__[model]
    idx = mdl.idx.v[0]
    mdl.alter('u', idx, 0)            # dynamic device out of service
    ss.setup()
    ss.PFlow.run()
    ss.TDS.init()
    fg = ss.dae.fg
    k = int(np.nanargmax(np.abs(fg)))
    print(f'{case}: offline {model} {idx!r}: test_ok={ss.TDS.test_ok}, '
          f'largest residual {fg[k]:+.4g} at <{ss.dae.xy_name[k]}>')
    bad += ss.TDS.test_ok is not True
sys.exit(1 if bad else 0)
