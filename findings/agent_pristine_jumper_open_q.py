"""
Genuine defect on the unchanged tree (C12: an out-of-service series device
must not connect its two buses).

Jumper.q has the equation  ``u*(v1 - v2) + (1-u) * p``  (andes/models/line/jumper.py):
for an open jumper (u=0) the q-equation reads ``p = 0`` instead of ``q = 0``.
Together with the p-equation (``(1-u)*p``) the variable q is then left
undetermined (only the diag_eps entry is on its diagonal) and simply keeps the
value it had before the jumper was opened.  Since q is injected into the
reactive balance of bus1 / bus2 (``v1.e_str = 'q'``, ``v2.e_str = '-q'``) an
OPEN jumper keeps transferring reactive power between the two buses after it
has been opened by a Toggle during a time-domain simulation.

Network: Slack at bus 1, lines 1-2 and 1-3, jumper 2-3, load at bus 3.
The jumper is opened at t=1 s.  Afterwards its p and q must be zero.
"""
import andes

andes.config_logger(stream_level=40)

ss = andes.System(default_config=True, no_output=True)
for i in (1, 2, 3):
    ss.add('Bus', dict(idx=i, name=f'B{i}', Vn=110))
ss.add('Line', dict(idx='L12', bus1=1, bus2=2, r=0.01, x=0.05))
ss.add('Line', dict(idx='L13', bus1=1, bus2=3, r=0.02, x=0.3))
ss.add('Jumper', dict(idx='J23', bus1=2, bus2=3))
ss.add('PQ', dict(idx='PQ3', bus=3, p0=0.5, q0=0.3))
ss.add('Slack', dict(idx='S1', bus=1, v0=1.0, a0=0.0))
ss.add('Toggle', dict(model='Jumper', dev='J23', t=1.0))
ss.setup()

assert ss.PFlow.run()
print('closed jumper: p=%.4f q=%.4f' % (ss.Jumper.p.v[0], ss.Jumper.q.v[0]))
ss.TDS.config.tf = 2.0
ss.TDS.config.no_tqdm = 1
ss.TDS.config.criteria = 0   # avoid an unrelated crash in store_idx_island (no SynGen in this case)
ss.TDS.run()
print('u after toggle:', ss.Jumper.u.v, ' p=%.6f q=%.6f' % (ss.Jumper.p.v[0], ss.Jumper.q.v[0]))
print('v2=%.4f v3=%.4f' % (ss.Bus.v.v[1], ss.Bus.v.v[2]))

assert ss.Jumper.u.v[0] == 0
assert abs(ss.Jumper.p.v[0]) < 1e-6, "open jumper carries active power"
assert abs(ss.Jumper.q.v[0]) < 1e-6, \
    f"open jumper still transfers reactive power q={ss.Jumper.q.v[0]:.4f} from bus 2 to bus 3"
print('OK')
