# Genuine defect (unchanged tree): System.collect_ref appends the referrer once PER IdxParam,
# so a device that points to the same target through two IdxParams (IEEEG1.syn and
# IEEEG1.syn2 both -> SynGen) is listed TWICE in the target's back-reference list
# ("exactly the devices that point to it, once each" is violated).
import andes
andes.config_logger(stream_level=50)
ss = andes.load(andes.get_case('kundur/kundur_ieeeg1.xlsx'), setup=False, no_output=True, default_config=True)
gov, gen = ss.IEEEG1.idx.v[0], ss.IEEEG1.syn.v[0]
ss.IEEEG1.syn2.v[0] = gen            # both turbine shafts on the same generator
ss.setup()
ref = ss.SynGen.TurbineGov.v[ss.SynGen.idx2uid(gen)]
assert ref == [gov], f"back-reference list of SynGen {gen!r} is {ref}, expected [{gov!r}]"
