"""
Pristine defects in the PSS/E raw parser (each checked separately, the exit code
is the number of failed checks):

 A. generator record without the trailing WMOD, WPF fields (26 fields, legal:
    trailing fields take defaults): `wmod = data[26] if len(data) >= 26 else 0`
    is off by one -> IndexError.
 B. two-winding transformer, CW=1, with an off-nominal ratio on winding 2
    (WINDV2 != 1): WINDV2 is ignored, Line.tap = WINDV1 instead of
    WINDV1 / WINDV2.
"""
import io
import sys
import traceback
import andes

andes.config_logger(50)
raw = open(andes.get_case('wscc9/wscc9.raw')).read().splitlines()
fails = 0


def load(lines):
    ss = andes.System(no_output=True, default_config=True)
    ok = andes.io.psse.read(ss, io.StringIO('\n'.join(lines) + '\n'))
    assert ok
    ss.setup()
    return ss


def section(lines, key):
    return [i for i, ln in enumerate(lines) if key in ln.lower()][0] + 1


# --- A ---
try:
    lines = list(raw)
    g = section(lines, 'begin generator data')
    f = lines[g].split(',')
    print('A: generator record has', len(f), 'fields; dropping WMOD, WPF')
    lines[g] = ','.join(f[:26])
    ss = load(lines)
    assert ss.PV.n + ss.Slack.n == 3
    print('A ok')
except Exception:
    traceback.print_exc()
    print('A FAILED')
    fails += 1

# --- B ---
try:
    lines = list(raw)
    t = section(lines, 'begin transformer data')
    bus1, bus2 = [int(x) for x in lines[t].split(',')[:2]]
    assert lines[t].split(',')[4].strip() == '1'     # CW = 1
    w1 = float(lines[t + 2].split(',')[0])
    l4 = lines[t + 3].split(',')
    l4[0] = '0.95000'
    lines[t + 3] = ','.join(l4)
    ss = load(lines)
    pos = [i for i in range(ss.Line.n) if ss.Line.bus1.v[i] == bus1 and ss.Line.bus2.v[i] == bus2][0]
    print('B: WINDV1', w1, 'WINDV2 0.95 -> Line.tap', ss.Line.tap.v[pos], 'expected', w1 / 0.95)
    assert abs(ss.Line.tap.v[pos] - w1 / 0.95) < 1e-6
    print('B ok')
except Exception:
    traceback.print_exc()
    print('B FAILED')
    fails += 1

sys.exit(fails)
