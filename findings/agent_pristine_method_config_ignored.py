"""
pristine defect -- the integration method selected through ``TDS.config.method`` after the system
has been loaded is silently ignored.

``TDS.__init__`` calls ``self.set_method(self.config.method)`` once; neither ``TDS.init`` nor
``TDS.run`` looks at ``config.method`` again.  Every other TDS option (tstep, fixt, g_scale, honest,
tol ...) is read from ``config`` at run time, so users set

    ss = andes.load(case); ss.TDS.config.method = 'backeuler'; ss.TDS.run()

and get ... the trapezoidal rule, with no warning.  The accepted steps therefore do NOT satisfy the
selected rule  T*(x1-x0) = h*f1  (they satisfy the trapezoidal one instead).

This script selects backward Euler through the config, runs the Kundur case with the line trip and
checks every accepted step against the backward-Euler rule.  Exits non-zero on the unchanged tree.
"""
import sys

import numpy as np

import andes

andes.config_logger(stream_level=50)

ss = andes.load(andes.get_case('kundur/kundur_full.xlsx'), default_config=True, no_output=True)
ss.PFlow.run()

tds = ss.TDS
tds.config.no_tqdm = 1
tds.config.tf = 3.0
tds.config.method = 'backeuler'      # <- the selected implicit rule

dae = ss.dae
res_be, res_trap = [], []
f_prev = [None]
orig_step = tds.itm_step


def pegged():
    keys = []
    for item in ss.antiwindups:
        for key, _, _ in item.x_set:
            keys.extend(np.atleast_1d(key).tolist())
    return keys


def checked_step():
    x0 = dae.x.copy()
    h = float(tds.h)
    if f_prev[0] is None:
        f_prev[0] = dae.f.copy()
    ok = orig_step()
    if ok:
        fsave, gsave = dae.f.copy(), dae.g.copy()
        tds.fg_update(ss.exist.pflow_tds)
        f1 = dae.f.copy()
        dae.f[:] = fsave
        dae.g[:] = gsave
        rb = dae.Tf * (dae.x - x0) - h * f1
        rt = dae.Tf * (dae.x - x0) - 0.5 * h * (f1 + f_prev[0])
        rb[pegged()] = 0
        rt[pegged()] = 0
        res_be.append(np.max(np.abs(rb)))
        res_trap.append(np.max(np.abs(rt)))
        f_prev[0] = f1
    return ok


tds.itm_step = checked_step
tds.run()

print('config.method =', tds.config.method, '; method object actually used =', type(tds.method).__name__)
print('max residual of the backward-Euler rule over accepted steps: %.3e' % max(res_be))
print('max residual of the trapezoidal rule over accepted steps:    %.3e' % max(res_trap))

assert max(res_be) < 1e-3, "accepted steps violate the selected (backward Euler) rule"
assert type(tds.method).__name__ == 'BackEuler', "config.method='backeuler' was ignored"
print('OK')
sys.exit(0)
