"""
Pristine-tree observation (property C14): the workflow documented in
andes/utils/snapshot.py -- `TDS.init()`, save a snapshot, load it, `TDS.run()`
-- does not equal the uninterrupted `TDS.run()`.

After `TDS.init()` the time is 0, so `TDS.run()` takes the *resume* branch
(`dae.t < 0` is false): `init_resume()` advances the time by one step before
the first integration step. The sample at t=0 is never stored (time axis starts
at t=h) and the whole trajectory is shifted by one step with respect to the
event times (the uninterrupted run performs one more integration step before
each event). The same happens without the snapshot (init() followed by run()).
"""
import io
import numpy as np
import andes
from andes.utils.snapshot import load_ss, save_ss

andes.config_logger(50)
CASE = andes.get_case('kundur/kundur_full.xlsx')


def load():
    ss = andes.load(CASE, no_output=True, default_config=True)
    ss.TDS.config.tstep = 1 / 32
    ss.TDS.config.no_tqdm = 1
    ss.PFlow.run()
    return ss


ref = load()
ref.TDS.config.tf = 3.0
ref.TDS.run()

ss = load()
ss.TDS.init()
buf = io.BytesIO()
save_ss(buf, ss)
buf.seek(0)
ss = load_ss(buf)
ss.TDS.config.tf = 3.0
ss.TDS.run()

print('first stored time: uninterrupted', ref.dae.ts.t[0], ' init+snapshot+run', ss.dae.ts.t[0])
print('samples:', len(ref.dae.ts.t), len(ss.dae.ts.t))
d = np.max(np.abs(ref.dae.xy - ss.dae.xy))
print('max final-state difference', d)
assert ss.dae.ts.t[0] == 0.0, "sample at t=0 missing after init() + run()"
assert len(ref.dae.ts.t) == len(ss.dae.ts.t)
assert d < 1e-6
