"""
Genuine defect on the unchanged tree: LeadLag2ndOrd documents "allows any or all parameters to be zero", but
with T2 = T4 = 0 and T1, T3 > 0 (a first-order lead-lag (1+sT3)/(1+sT1) entered through the 2nd-order block, e.g.
IEEEST with A4 = A6 = 0) every term of the output equation is multiplied by T2 or T4, and the zero-out flag is
off because T1 > 0: the output equation collapses to 0 = 0 and y is not determined at all.
Exits non-zero on the unchanged tree.
"""
import numpy as np
import sympy as sp
from andes.core.block import LeadLag2ndOrd
from andes.core.param import NumParam
from andes.core.var import Algeb

vals = {'T1': 0.5, 'T2': 0.0, 'T3': 0.2, 'T4': 0.0}
u = Algeb(name='u', tex_name='u')
P = {}
for k, v in vals.items():
    P[k] = NumParam(name=k, tex_name=k)
    P[k].v = np.array([v])
blk = LeadLag2ndOrd(u=u, zero_out=True, name='F', **P)
ex = blk.export()
names = ['u', 'F_x1', 'F_x2', 'F_y'] + list(vals)
sub = {}
for lt in ('LT1', 'LT2', 'LT3', 'LT4'):
    ex[lt].list2array(1)
    ex[lt].check_var()
    for z in ('z0', 'z1'):
        names.append(f'F_{lt}_{z}')
        sub[sp.Symbol(f'F_{lt}_{z}')] = int(getattr(ex[lt], z)[0])
S = {k: sp.Symbol(k) for k in names}
sub.update({S[k]: sp.nsimplify(v) for k, v in vals.items()})
g = sp.expand(sp.sympify(str(blk.y.e_str), locals=S).subs(sub))
print('output equation for', vals, ':  0 =', g)
assert sp.diff(g, S['F_y']) != 0, 'output equation of LeadLag2ndOrd does not contain y (0 = 0) for T2 = T4 = 0 < T1, T3'
