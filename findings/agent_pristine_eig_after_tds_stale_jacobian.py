"""
Genuine defect of the UNCHANGED tree (property C08, "the state matrix is T^-1(fx - fy gy^-1 gx)
of the CURRENT operating point").

EIG.run() after a time-domain simulation does not re-evaluate the Jacobians: EIG._pre_check only
calls TDS.init()/itm_step() when the TDS is not initialised, and the TDS integrator updates the
Jacobians lazily (at t=0, within 0.1 s of an event, on slow convergence).  kundur_full trips a line
at t=2 s; after simulating to t=10 s the matrices in ``dae.fx/fy/gx/gy`` are those of t~2.1 s, and
EIG builds its state matrix from them.  Re-evaluating the Jacobians at the current x, y
(System.j_update) and running EIG again gives a different state matrix and different eigenvalues.
"""
import sys

import numpy as np

import andes
from andes.shared import matrix
from andes.utils.paths import get_case

andes.config_logger(stream_level=50)


def mismatch(a, b):
    a, b = list(a), list(b)
    if len(a) != len(b):
        return float('inf')
    err = 0.0
    for x in a:
        k = int(np.argmin([abs(x - y) for y in b]))
        err = max(err, abs(x - b[k]) / (1 + abs(x)))
        b.pop(k)
    return err


ss = andes.load(get_case("kundur/kundur_full.xlsx"), default_config=True, no_output=True)
ss.PFlow.run()
ss.TDS.config.tf = 10
ss.TDS.config.no_tqdm = 1
ss.TDS.run()

assert ss.EIG.run()
As_reported = np.array(matrix(ss.EIG.As))
mu_reported = ss.EIG.mu.copy()

# Jacobians at the current operating point (x, y at t = 10 s)
xy = ss.dae.xy.copy()
ss.j_update(models=ss.exist.pflow_tds)
assert np.array_equal(xy, ss.dae.xy)
assert ss.EIG.run()
As_current = np.array(matrix(ss.EIG.As))

dA = np.abs(As_reported - As_current).max()
dmu = mismatch(mu_reported, ss.EIG.mu)
print(f"t={float(ss.dae.t):.2f}: max |As_reported - As(current point)| = {dA:.3g}, eigenvalue mismatch = {dmu:.3g}")
assert dA < 1e-6 and dmu < 1e-6, "EIG.run() after TDS used stale Jacobians, not those of the current operating point"
print("ok")
sys.exit(0)
