"""
Genuine defect on the UNCHANGED tree (property C09, `Sampling` = sample and hold).

`Sampling(u, interval)` is documented to "sample an input variable periodically at the
given time interval and hold the value until the next sample time".

andes/core/discrete.py: `Sampling.__init__` creates `self._last_t = np.array([0])`, an
INTEGER array, and `check_var` stores the sample time with `self._last_t[0] = dae_t`,
which truncates the time to an integer.  With an interval below 1 s (here 0.5 s, step
0.1 s) the truncated "last sample time" stays at 0 (then 1, 2, ...), so after the first
sample the condition `dae_t - offset - _last_t > interval` is true at EVERY step of the
second half of each second: the output follows the input step by step instead of being
held for 0.5 s.  (With a non-zero offset or a non-integer interval the sampling instants
are wrong for the same reason.)

The check: between two consecutive changes of the held output at least `interval`
seconds (minus one step) must elapse.  Exits non-zero on the unchanged tree.
"""
import numpy as np
from andes.core.common import DummyValue
from andes.core.discrete import Sampling

u = DummyValue(0)
u.v = np.zeros(1)
interval, h = 0.5, 0.1
s = Sampling(u, interval=interval)
s.list2array(1)

change_times = []
prev = None
for k in range(0, 31):
    t = round(k * h, 10)
    u.v[:] = t                    # strictly increasing input: every new sample changes the output
    s.check_var(t)
    if prev is not None and s.v[0] != prev:
        change_times.append(t)
    prev = s.v[0]

print("output changed at t =", change_times)
print("_last_t dtype:", s._last_t.dtype)
gaps = np.diff(change_times)
assert len(change_times) > 0
assert np.all(gaps >= interval - h - 1e-9), \
    f"sample-and-hold output changed again after only {gaps.min():.2f} s (interval is {interval} s)"
print("OK")
