# Genuine defect (unchanged tree): System.collect_ref silently skips an IdxParam value that
# is not a device of the destination model (`if dest_idx not in dest.uid: continue`).
# A Bus whose `area` names a non-existent Area is accepted: set-up succeeds without error
# and the bus silently belongs to no area (it is in no Area.Bus back-reference list).
import andes
andes.config_logger(stream_level=50)
ss = andes.load(andes.get_case('kundur/kundur_full.xlsx'), setup=False, no_output=True, default_config=True)
bus = ss.Bus.idx.v[0]
ss.Bus.area.v[0] = 999
assert 999 not in ss.Area.idx.v
try:
    ok = ss.setup()
except Exception:
    ok = False
in_some_area = any(bus in lst for lst in ss.Area.Bus.v) if ok else None
assert ok is False, (f"set-up succeeded although Bus {bus}.area=999 does not exist; "
                     f"bus listed in some area: {in_some_area}")
