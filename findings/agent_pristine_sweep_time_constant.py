"""
Genuine defect of the UNCHANGED tree (property C08, "every operating point, including after
parameter sweeps").

EIG.sweep() over a parameter that is a time constant (the docstring's own example sweeps the
inertia ``GENCLS.M``; here GENROU.M of kundur_full) returns the SAME eigenvalues for every value
of the sweep.  sweep() writes ``param.v[pos]`` directly and then calls TDS.init(), which returns
immediately once the TDS is initialised, so ``dae.Tf`` (filled by System._store_tf at the first
initialisation only) is never refreshed.  The reported eigenvalues are those of
T_old^-1 (fx - fy gy^-1 gx), not of the current parameter set.

Reference: a fresh System in which M has the final sweep value from the start.
"""
import sys

import numpy as np

import andes
from andes.utils.paths import get_case

andes.config_logger(stream_level=50)


def mismatch(a, b):
    a, b = list(a), list(b)
    if len(a) != len(b):
        return float('inf')
    err = 0.0
    for x in a:
        k = int(np.argmin([abs(x - y) for y in b]))
        err = max(err, abs(x - b[k]) / (1 + abs(x)))
        b.pop(k)
    return err


case = get_case("kundur/kundur_full.xlsx")

ss = andes.load(case, default_config=True, no_output=True)
ss.PFlow.run()
M0 = float(ss.GENROU.M.v[0])
ret = ss.EIG.sweep(ss.GENROU.M, 1, [M0, 2 * M0, 4 * M0])

ref = andes.load(case, default_config=True, no_output=True)
ref.GENROU.M.v[0] = 4 * M0
ref.PFlow.run()
ref.EIG.run()

d_first_last = mismatch(ret[0]['mu'], ret[2]['mu'])
d_ref = mismatch(ret[2]['mu'], ref.EIG.mu)
a = ss.GENROU.omega.a[0]
print(f"sweep: mu(M0) vs mu(4*M0) differ by {d_first_last:.3g}; mu(4*M0) vs fresh system with 4*M0: {d_ref:.3g}")
print(f"GENROU.M.v[0]={ss.GENROU.M.v[0]}  dae.Tf[omega]={ss.dae.Tf[a]}")

assert ss.dae.Tf[a] == ss.GENROU.M.v[0], "dae.Tf was not updated by the sweep"
assert d_first_last > 1e-6, "the sweep over the inertia returned identical eigenvalues for all values"
assert d_ref < 1e-6, "eigenvalues of the last sweep point are not those of the system with that parameter"
print("ok")
sys.exit(0)
