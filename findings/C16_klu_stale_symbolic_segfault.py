"""
Minimal reproduction of a crash on the PRISTINE tree (not related to patch1/patch2).

Sequence: power flow with two lines out of service  ->  switch the lines back
on with Line.alter('u', idx, 1)  ->  power flow again in the same System.
The second PFlow.run() kills the interpreter (SIGSEGV) with the default KLU
solver.  Presumed cause (not confirmed): the Jacobian handed to the solver has
more non-zeros in the second run (entries of the restored lines), while the
cached symbolic factorisation of the first run is reused.

Run:
    cd /tmp/mut/C01r2 && HOME=/tmp/mut/home_C01r2 PYTHONPATH=/tmp/mut/C01r2 \
        /venv/bin/python /tmp/mut/out_C01r2/segfault_repro.py; echo "exit $?"
Expected on a healthy library: prints "first run", "second run", "NO CRASH", exit 0.
Observed on the pristine tree: prints "first run" only, then exit 139 (SIGSEGV).
"""
import sys

import andes

andes.config_logger(stream_level=30)

ss = andes.System(default_config=True, no_output=True)
ss.config.mva = 100.0

for i in range(1, 6):
    ss.add('Bus', idx=i, name='B%d' % i, Vn=230.0, v0=1.0, a0=0.0)

ss.add('Slack', idx='G1', bus=1, Vn=230.0, v0=1.02, a0=0.0, p0=0.0, q0=0.0)
ss.add('PV', idx='G2', bus=3, Vn=230.0, v0=1.01, p0=0.6, q0=0.0)
ss.add('PQ', idx='L2', bus=2, Vn=230.0, p0=0.5, q0=0.2)
ss.add('PQ', idx='L4', bus=4, Vn=230.0, p0=0.4, q0=0.1)
ss.add('PQ', idx='L5', bus=5, Vn=230.0, p0=0.3, q0=0.1)

kw = dict(Sn=100.0, Vn1=230.0, Vn2=230.0)
ss.add('Line', idx='l12', bus1=1, bus2=2, r=0.01, x=0.08, b=0.04, **kw)
ss.add('Line', idx='l23', bus1=2, bus2=3, r=0.015, x=0.1, b=0.03, **kw)
ss.add('Line', idx='l34', bus1=3, bus2=4, r=0.0, x=0.12, **kw)
ss.add('Line', idx='l45', bus1=4, bus2=5, r=0.02, x=0.15, b=0.05, **kw)
ss.add('Line', idx='l15', bus1=1, bus2=5, r=0.02, x=0.2, b=0.02, **kw)
ss.setup()

# 1. take both lines of bus 5 out of service and solve
ss.Line.alter('u', 'l45', 0)
ss.Line.alter('u', 'l15', 0)
ok = ss.PFlow.run()
print('first run : converged=%s islanded bus uids=%s' % (ok, list(ss.Bus.islanded_buses)), flush=True)

# 2. put the lines back in service and solve again in the same System
ss.Line.alter('u', 'l45', 1)
ss.Line.alter('u', 'l15', 1)
ok = ss.PFlow.run()
print('second run: converged=%s islanded bus uids=%s' % (ok, list(ss.Bus.islanded_buses)), flush=True)

print('NO CRASH')
sys.exit(0)
