# Genuine defect (unchanged tree): DeviceFinder.find_or_add resolves an explicitly given but
# NON-EXISTENT helper index (IEEEST.busf='NO_SUCH_BUSFREQ') to a different device: only a
# log warning is emitted, set-up succeeds, and the PSS is linked to an auto-created
# 'BusFreq_1' while the stored parameter busf still holds the dangling name.
import andes
andes.config_logger(stream_level=50)
ss = andes.load(andes.get_case('kundur/kundur_ieeest.xlsx'), setup=False, no_output=True, default_config=True)
ss.IEEEST.busf.v[0] = 'NO_SUCH_BUSFREQ'
try:
    ok = ss.setup()
except Exception:
    ok = False
assert ok is False, (f"set-up succeeded; busf={ss.IEEEST.busf.v[0]!r} silently resolved to "
                     f"{ss.IEEEST.busfreq.v[0]!r}; BusFreq devices: {ss.BusFreq.idx.v}")
