import andes, numpy as np
andes.config_logger(40)
ss = andes.load(andes.get_case('kundur/kundur_vsc.xlsx'), default_config=True, no_output=True)
ss.PFlow.run(); ss.TDS.config.no_tqdm=1; ss.TDS.init()
bad=[]
for mn, m in ss.models.items():
    if not m.n: continue
    for vn, var in m.cache.all_vars.items():
        if vn in m._input and m._input[vn] is not var.v:
            bad.append((mn, vn, m.flags.pflow, m.flags.tds))
print('models with stale equation inputs after TDS.init:', sorted({b[0] for b in bad}))
print(bad[:6])
