"""
Genuine defect on the UNCHANGED tree (property C09, `AntiWindup(enable=False)`).

`Limiter` documents: "If not enabled, the default flags are zu = zl = 0, zi = 1", and
`Limiter.check_var` returns immediately when `enable` is False.  `AntiWindup` (and
`AntiWindupRate`) accept the same `enable` argument and store it, but
`AntiWindup.check_eq` never looks at it: a disabled anti-windup limiter still raises its
flags, zeroes the derivative and overwrites the state with the limit.

Exits non-zero on the unchanged tree.
"""
import numpy as np
from andes.core.discrete import AntiWindup, HardLimiter
from andes.core.param import NumParam
from andes.core.var import State, Algeb

lower, upper = NumParam(), NumParam()
lower.v = np.array([-1.0, -1.0])
upper.v = np.array([1.0, 1.0])

# reference behaviour: a disabled hard limiter leaves the default flags
y = Algeb()
y.v = np.array([2.0, -3.0])
hl = HardLimiter(u=y, lower=lower, upper=upper, enable=False)
hl.list2array(2)
hl.check_var()
assert hl.zi.tolist() == [1, 1] and hl.zu.tolist() == [0, 0] and hl.zl.tolist() == [0, 0]

x = State()
x.v = np.array([2.0, -3.0])       # outside the limits
x.e = np.array([0.5, -0.5])       # and still moving outwards
x.a = np.array([0, 1])
aw = AntiWindup(u=x, lower=lower, upper=upper, enable=False)
aw.list2array(2)
aw.check_eq()

print("zi", aw.zi, "zu", aw.zu, "zl", aw.zl, "x.v", x.v, "x.e", x.e)
assert aw.zi.tolist() == [1, 1], "disabled AntiWindup raised its limit flags"
assert x.v.tolist() == [2.0, -3.0], "disabled AntiWindup overwrote the state"
assert x.e.tolist() == [0.5, -0.5], "disabled AntiWindup zeroed the derivative"
print("OK")
