# Pristine-tree observation (contradicts C14): with the SciPy solver
# ([TDS] sparselib = spsolve) a snapshot cannot be saved once a simulation has run:
# SciPySolver.clear() is a no-op, the cached SuperLU factorization stays in
# `TDS.solver.spsolve.lu` and dill raises "cannot pickle 'SuperLU' object".
import io
import andes
from andes.utils.snapshot import save_ss, load_ss
andes.config_logger(stream_level=40)
ss = andes.load(andes.get_case('kundur/kundur_full.xlsx'), no_output=True, default_config=True,
                config_option=['TDS.sparselib=spsolve'])
ss.TDS.config.no_tqdm = 1
ss.PFlow.run()
ss.TDS.config.tf = 1.0
ss.TDS.run()
buf = io.BytesIO()
save_ss(buf, ss)          # TypeError on the pristine tree
buf.seek(0)
ss2 = load_ss(buf)
ss2.TDS.config.tf = 2.0
ss2.TDS.run()
assert ss2.exit_code == 0
