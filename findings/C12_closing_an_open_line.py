"""
Behaviour of the UNCHANGED tree that contradicts property C07 (minimal script).

A: SWITCHING IN a line has no effect.  Stock case smib/SMIB.json, parallel line Line_3 is
   initially out of service (u = 0, power flow solved with it out) and a Toggle closes it at
   t = 1.0 s.  Toggle reports "status changed to 1" and Line.u becomes 1, but the line
   admittances (ConstServices yh, yk, yhk -> ghk, bhk of andes/models/line/line.py) contain
   the factor u and are only evaluated at initialisation, so they stay 0: the rotor angle
   does not move at all, whereas the reference (reactance 0.795 -> 0.595 pu at t = 1 s)
   swings by ~0.2 rad.  (Trip followed by reclose works, because the services were then
   evaluated with u = 1.)

B: a Toggle with t = 0 is silently ignored (TDS.calc_h skips the switch time that equals
   the initial time and do_switch is only called after a step): the line stays in service.

Exit code 1 if either of the two behaviours is present (it is on the unchanged tree).
"""
import sys
import numpy as np
import andes

andes.config_logger(stream_level=50)


def run(toggles, line3_u):
    ss = andes.load(andes.get_case('smib/SMIB.json'), setup=False,
                    no_output=True, default_config=True)
    ss.Line.u.v[2] = line3_u
    for dev, t in toggles:
        ss.add('Toggle', dict(model='Line', dev=dev, t=t))
    ss.setup()
    ss.Fault.u.v[:] = 0
    ss.PFlow.run()
    ss.TDS.config.tf = 3.0
    ss.TDS.config.no_tqdm = 1
    ss.TDS.run()
    d = np.array(ss.dae.ts.x[:, ss.GENCLS.delta.a[0]])
    return ss, d


bad = False

ss, d = run([('Line_3', 1.0)], line3_u=0)
print('A: Line.u =', ss.Line.u.v, ' Line.bhk =', ss.Line.bhk.v,
      ' rotor angle swing after closing the line =', d.max() - d.min())
if d.max() - d.min() < 1e-6:
    print('A: closing an initially open line did not change the trajectory')
    bad = True

ss, d = run([('Line_3', 0.0)], line3_u=1)
print('B: Line.u =', ss.Line.u.v, ' rotor angle swing =', d.max() - d.min())
if ss.Line.u.v[2] == 1:
    print('B: Toggle at t = 0 was ignored')
    bad = True

sys.exit(1 if bad else 0)
