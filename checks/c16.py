r"""
C16  Results do not depend on solver back-end, acceleration options or repetition  (partial).

Decided here (solver-based, on the real wrapper code):
  * SuiteSparseSolver.solve with the C library calls (_symbolic/_numeric/_solve) replaced by a
    TYPESTATE model -- a symbolic factor remembers the pattern it was made for, a numeric factor
    the matrix version; `_numeric` raises ValueError on a pattern mismatch and ArithmeticError
    when the matrix is singular (a free symbolic boolean per matrix) -- for every sequence of
    <= 3 calls with value changes, pattern changes and singular/regular matrices: a returned
    vector without NaN was produced by `_solve` with factors of the CURRENT matrix; a singular
    matrix gives an all-NaN vector; the cached symbolic factor is reused only for an unchanged
    pattern.
  * SpSolve.solve (splu stubbed the same way): whenever a refresh was requested (factorize or
    new_A) the factor used is of the current matrix.
  * The routines set those flags: real PFlow.nr_step sets worker.new_A whenever it rebuilt the
    Jacobian, real ImplicitIter.step sets worker.factorize whenever it called j_update.
  * In-place (ipadd) and rebuild accumulation of System.j_update give the same matrix entry by
    entry at a symbolic operating point.
Not applicable to a solver: numerical agreement of KLU/UMFPACK/SuperLU results, numba, and
bit-reproducibility across processes (C libraries, float non-associativity).
"""
import itertools
import types

import numpy as np
import z3

from vlib import core, pysym, harness as H
from vlib.harness import AND, OR, NOT, IFF, IMPLIES, EQ, LE, LT

PID = 'C16'
NS = types.SimpleNamespace


# sparsity patterns of a 2x2 matrix as (column pointers, row indices); pattern 2 has the column pointers and the number of
# entries of pattern 0 but other row indices
PATTERNS = {0: ([0, 1, 2], [0, 1]), 1: ([0, 2, 3], [0, 1, 1]), 2: ([0, 1, 2], [1, 0])}


class Mat:
    """a matrix as the wrapper sees it: size, pattern id, value version"""

    def __init__(self, pattern, version, n=2):
        self.pattern, self.version, self.size = pattern, version, (n, n)

    def __getitem__(self, key):
        return 1.0

    @property
    def CCS(self):
        """column pointers / row indices: one distinct structure per pattern id"""
        colptr, rowind = PATTERNS[self.pattern]
        return np.array(colptr), np.array(rowind), None


def h_suitesparse(seq):
    """seq: tuple of (pattern id, version) per call"""
    def h(I):
        import kvxopt
        from andes.linsolvers.suitesparse import SuiteSparseSolver
        log = []

        class Model(SuiteSparseSolver):
            def _symbolic(self, A):
                log.append(('symbolic', A.version))
                return NS(pattern=A.pattern)

            def _numeric(self, A, F):
                log.append(('numeric', A.version))
                if F is None or F.pattern != A.pattern:
                    # KLU (the default back end) does NOT check this: klu.numeric with a symbolic factor of another pattern
                    # returns garbage or corrupts memory (observed: SIGSEGV / SIGBUS); UMFPACK raises ValueError
                    stale.append(A.version)
                    raise ValueError('pattern of the symbolic factor does not match')
                if sing[A.version]:
                    raise ArithmeticError('singular')
                return NS(version=A.version, pattern=A.pattern)

            def _solve(self, A, F, N, b):
                log.append(('solve', A.version))
                b[:] = float(1000 + 100 * A.version + 10 * N.version + F.pattern)
        sing = {v: bool(I.boolean(f'matrix_{v}_is_singular')) for v in sorted({it[1] for it in seq})}
        stale = []
        S = Model()
        out = []
        prev = None
        for k, item in enumerate(seq):
            p, v = item[0], item[1]
            same_object = len(item) > 2 and item[2] and prev is not None and prev.pattern == p
            if same_object:
                A = prev                    # the caller changed the values of the SAME matrix object in place
                A.version = v
            else:
                A = Mat(p, v)
            prev = A
            b = kvxopt.matrix([0.0, 0.0])
            del log[:]
            del stale[:]
            x = S.solve(A, b)
            want = float(1000 + 100 * v + 10 * v + p)
            nan = bool(np.isnan(x).any())
            out.append((f'call {k}: a vector without NaN was computed with factors of the current matrix',
                        (nan and bool(np.isnan(x).all())) or bool(np.all(x == want))))
            out.append((f'call {k}: all-NaN <=> the current matrix is singular', nan == sing[v]))
            out.append((f'call {k}: bounded work (no unbounded retry)', len(log) <= 6))
            out.append((f'call {k}: the numeric factorisation never receives a symbolic factor made for another sparsity pattern', not stale))
            out.append((f'call {k}: a numeric factorisation of the current matrix is attempted on every call',
                        ('numeric', v) in log))
        return out
    return h


def h_spsolve(seq):
    """seq: tuple of (version, refresh) with refresh in {'none','factorize','new_A'}"""
    def h(I):
        import andes.linsolvers.scipy as SC
        made = []

        def splu(A):
            made.append(A.version)
            return NS(solve=lambda b, ver=A.version: np.full(len(b), float(ver)))
        solve = pysym.rebind(SC.SpSolve.solve, splu=splu, spmatrix_to_csc=lambda A: A)
        S = SC.SpSolve()
        out = []
        for k, (v, refresh) in enumerate(seq):
            if refresh == 'factorize':
                S.factorize = True
            elif refresh == 'new_A':
                S.new_A = True
            requested = S.factorize or S.new_A
            x = solve(S, Mat(0, v), np.zeros(2))
            if requested:
                out.append((f'call {k}: after a refresh request the factor is of the current matrix', bool(np.all(x == float(v)))))
            out.append((f'call {k}: refresh flags are consumed', S.factorize is False and S.new_A is False))
        return out
    return h


def h_spsolve_mixed(seq):
    """seq: tuple of (version, op) with op in {'solve', 'solve+refresh', 'linsolve'}: the one-shot entry point is stateless"""
    def h(I):
        import andes.linsolvers.scipy as SC

        def splu(A):
            return NS(solve=lambda b, ver=A.version: np.full(len(b), float(ver)))
        solve = pysym.rebind(SC.SpSolve.solve, splu=splu, spmatrix_to_csc=lambda A: A)
        lin = pysym.rebind(SC.SpSolve.linsolve, spsolve=lambda A, b: np.full(len(b), float(A.version)), spmatrix_to_csc=lambda A: A,
                           splu=splu)
        S = SC.SpSolve()
        S.solve = types.MethodType(solve, S)
        out = []
        pending = True                      # a new solver starts with the refresh flag set
        for k, (v, op) in enumerate(seq):
            if op == 'clear':
                S.clear()
                out.append((f'call {k}: clear() drops the cached factorisation (a C object that a snapshot cannot serialise)', getattr(S, 'lu', None) is None))
                pending = True              # the next solve must factorise the matrix it is given
                continue
            if op == 'linsolve':
                x = lin(S, Mat(0, v), np.zeros(2))
                out.append((f'call {k}: the one-shot entry point returns the solution of the matrix it was given', bool(np.all(x == float(v)))))
                continue
            if op == 'solve+refresh':
                S.new_A = True
                pending = True
            x = solve(S, Mat(0, v), np.zeros(2))
            if pending:
                out.append((f'call {k}: a refresh requested earlier is honoured by this solve, whatever one-shot calls came in between',
                            bool(np.all(x == float(v)))))
            pending = False
        return out
    return h


def h_flags_step(honest, last_conv):
    """real ImplicitIter.step: whenever j_update is called the worker is told to refactorise before the solve"""
    def h(I):
        import andes.routines.daeint as DI
        from checks.c04 import NPStep, _Log
        npx = NPStep(I)
        step = pysym.rebind(DI.ImplicitIter.step, np=npx, matrix=lambda v: v, logger=_Log(), tqdm=NS(write=lambda *a: None))
        events = []
        worker = NS(factorize=False)
        dae = NS(n=1, m=1, t=I.real('t'), x=I.arr('x'), y=I.arr('y'), f=I.arr('f'), g=I.zeros(1), Tf=I.arr('T'), fx='fx', fy='fy',
                 gx=1.0, gy=1.0, xy_name=['x', 'y'])
        I.assume(LE(0, dae.t))

        def j_update(**k):
            events.append('j_update')

        def solve(A, b):
            events.append(('solve', worker.factorize))
            worker.factorize = False        # what a worker does after factorising
            return I.arr('inc0', 'inc1')
        it = [0]

        def fg_update(models=None):
            it[0] += 1
        tol = I.real('tol')
        I.assume(LT(0, tol))
        system = NS(dae=dae, exist=NS(pflow_tds={}), antiwindups=[], j_update=j_update, vars_to_models=lambda: None, options={})
        cfg = NS(honest=honest, g_scale=0, linsolve=0, reset_tiny=0, tol=tol, max_iter=2, chatter_iter=100)
        tds = NS(system=system, h=I.real('h'), config=cfg, x0=I.zeros(1), y0=I.zeros(1), f0=I.zeros(1), qg=I.zeros(2),
                 custom_event=bool(I.boolean('custom_event')), last_converged=last_conv, _last_switch_t=I.real('last_switch_t'),
                 tol_zero=0.0, chatter=False, busted=False, err_msg='', solver=NS(worker=worker, solve=solve, linsolve=solve),
                 fg_update=fg_update, method=NS(calc_jac=lambda *a: 'Ac', calc_q=DI.Trapezoid.calc_q), Teye='T', niter=0, converged=False)
        step(tds)
        ok = True
        for a, b in zip(events, events[1:]):
            if a == 'j_update' and isinstance(b, tuple) and b[0] == 'solve' and b[1] is not True:
                ok = False
        return [('every solve that follows a Jacobian rebuild is told to refactorise', ok),
                ('honest Newton rebuilds the Jacobian in every iteration',
                 (not honest) or events.count('j_update') == sum(1 for e in events if isinstance(e, tuple)))]
    return h


def h_flags_nr(method):
    def h(I):
        import andes.routines.pflow as PF
        events = []
        worker = NS(new_A=False)
        dae = NS(n=0, m=2, f=I.zeros(0), g=I.arr('g0', 'g1'), x=I.zeros(0), y=I.arr('y0', 'y1'), fx='fx', fy='fy', gx='gx', gy='gy',
                 x_name=[], y_name=['a', 'b'])
        system = NS(dae=dae, j_update=lambda m: events.append('j_update'), vars_to_models=lambda: None)

        def solve(A, b):
            events.append(('solve', worker.new_A))
            worker.new_A = False
            return I.arr('inc0', 'inc1')
        nr_step = pysym.rebind(PF.PFlow.nr_step, sparse=lambda x: 'A', logger=NS(debug=lambda *a, **k: None), np=pysym.NPX)
        niter = int(I.real('niter_is_large')) if False else None
        res = {}
        for nit in (0, 5):
            del events[:]
            pf = NS(system=system, config=NS(method=method, n_factorize=4, linsolve=0), niter=nit, models={}, fg_update=lambda: None,
                    res=I.zeros(2), solver=NS(worker=worker, solve=solve, linsolve=solve), A=None, inc=None)
            nr_step(pf)
            res[nit] = list(events)
        out = []
        for nit, ev in res.items():
            rebuilt = 'j_update' in ev
            told = [e[1] for e in ev if isinstance(e, tuple)][0]
            out.append((f'iteration {nit}: a rebuilt Jacobian is announced to the solver (new_A)', (not rebuilt) or told is True))
            want = (method != 'dishonest') or nit < 4
            out.append((f'iteration {nit}: the Jacobian is rebuilt unless the dishonest method keeps it', rebuilt == want))
        return out
    return h


def h_ipadd_equal():
    def h(I):
        from checks import c03_asm
        from vlib import symsys
        ss = c03_asm.get_sys('pf3')
        mats = {}
        for ipadd in (1, 0):
            us = I.arr('uSH3', 'uSH2')
            ul = I.arr('uL1', 1.0, 1.0)
            for v in list(us) + [ul[0]]:
                I.assume(OR(EQ(v, 0, tol=0.0), EQ(v, 1, tol=0.0)))
            c03_asm.residual_and_jac(ss, I, ipadd, status={'Shunt': us, 'Line': ul})
            m = ss.dae.m
            mats[ipadd] = [[symsys.entry(ss.dae.gy, i, j) for j in range(m)] for i in range(m)]
        m = ss.dae.m
        return [(f'gy[{i},{j}] identical with in-place and rebuild accumulation', EQ(mats[1][i][j], mats[0][i][j]))
                for i in range(m) for j in range(m)]
    return h


def job(spec):
    import logging
    logging.getLogger('andes').setLevel(60)
    kind, arg = spec
    if kind == 'ss':
        return H.run('SuiteSparseSolver.solve ' + ' > '.join(f'(pattern {it[0]}, version {it[1]}' + (', same object' if len(it) > 2 and it[2] else '') + ')' for it in arg), h_suitesparse(arg),
                     region=lambda v, c: c.split(': ')[-1])
    if kind == 'spmix':
        return H.run('SpSolve solve/linsolve ' + ' > '.join(f'{op}(v{v})' for v, op in arg), h_spsolve_mixed(arg), region=lambda v, c: c.split(': ')[-1])
    if kind == 'sp':
        return H.run('SpSolve.solve ' + ' > '.join(f'(version {v}, {r})' for v, r in arg), h_spsolve(arg), region=lambda v, c: c.split(': ')[-1])
    if kind == 'step':
        return H.run(f'ImplicitIter.step flags [honest={arg[0]}, last_converged={arg[1]}]', h_flags_step(*arg), max_paths=4000,
                     region=lambda v, c: c)
    if kind == 'nr':
        return H.run(f'PFlow.nr_step flags [{arg}]', h_flags_nr(arg), region=lambda v, c: c.split(': ')[-1])
    if kind == 'ipadd':
        return H.run('System.j_update ipadd vs rebuild', h_ipadd_equal(), timeout_ms=30000, max_paths=200, region=lambda v, c: 'gy differs between accumulation modes')


def main():
    ck = core.Check(PID, 'other',
                    'Typestate model of the factorisation objects under the real SuiteSparseSolver.solve / SpSolve.solve for all call '
                    'sequences <= 3 (value change, pattern change, singular/regular as symbolic booleans): a non-NaN result comes from '
                    'factors of the current matrix; real step / nr_step announce rebuilt Jacobians; ipadd and rebuild accumulation agree '
                    'entry-wise at a symbolic operating point.')
    import andes.linsolvers.suitesparse as SS
    import andes.linsolvers.scipy as SC
    import andes.linsolvers.solverbase as SB
    import andes.routines.pflow as PF
    import andes.routines.daeint as DI
    import andes.system as SY
    ck.encodes(SS.SuiteSparseSolver.solve, SS.KLUSolver.linsolve, SS.UMFPACKSolver.linsolve, SC.SpSolve.solve, SC.SpSolve.linsolve,
               SB.Solver.solve, SB.Solver.linsolve, PF.PFlow.nr_step, DI.ImplicitIter.step, SY.System.j_update)
    thorough = core.tier() == 'thorough'
    L = 4 if thorough else 3
    ck.bound(call_sequences=f'<= {L} calls', patterns='2', versions='<= 3', accumulation='3-bus PF system, symbolic point and statuses')
    ck.stub('klu/umfpack symbolic, numeric, solve -> typestate model (pattern mismatch => ValueError, singular => ArithmeticError)',
            'scipy splu -> object remembering the matrix version', 'fg_update, j_update, linear solve in step/nr_step -> recorders')
    ck.assume('the C libraries raise ArithmeticError exactly on a singular matrix; a stale symbolic factor is undefined behaviour in KLU (checked on kvxopt: no exception, garbage or SIGSEGV) and ValueError in UMFPACK -- the wrapper must therefore never pass one')
    ck.out('numerical agreement of KLU/UMFPACK/SuperLU results (C libraries)', 'numba', 'bit-reproducibility across processes',
           'CuPy back-end')
    jobs = []
    mats = [(0, 0), (0, 1), (1, 2)]
    for n in range(1, L + 1):
        for seq in itertools.product(mats, repeat=n):
            if not thorough and n == 3 and (hash(seq) + core.seed()) % 3:
                continue
            jobs.append(('ss', seq))
    for seq in (((0, 0), (0, 1, True)), ((0, 0), (0, 1, True), (0, 2, True)), ((0, 0), (1, 2), (1, 1, True)), ((0, 1), (0, 1, True)),
                ((0, 0), (2, 1)), ((2, 0), (0, 1), (2, 2)), ((0, 0), (2, 0)), ((1, 0), (2, 1), (0, 2))):
        jobs.append(('ss', seq))
    for seq in itertools.product([(0, 'none'), (1, 'none'), (1, 'factorize'), (2, 'new_A')], repeat=3 if thorough else 2):
        jobs.append(('sp', seq))
    ops = [(0, 'solve'), (1, 'linsolve'), (2, 'solve+refresh'), (3, 'solve')]
    jobs += [('spmix', seq) for seq in itertools.permutations(ops, 3)] + [('spmix', ((0, 'solve'), (1, 'solve+refresh'))), ('spmix', ((0, 'solve+refresh'), (1, 'linsolve'), (2, 'solve'))),
             ('spmix', ((0, 'solve'), (0, 'clear'), (1, 'solve'))), ('spmix', ((0, 'solve'), (1, 'linsolve'), (0, 'clear'), (2, 'solve')))]
    jobs += [('step', (h_, lc)) for h_ in (0, 1) for lc in (True, False)] + [('nr', m) for m in ('NR', 'dishonest')] + [('ipadd', 0)]
    ck.merge(core.pmap(job, jobs))
    ck.sample({'sequence': '(pattern 0, version 0) > (pattern 1, version 2) > (pattern 0, version 1)', 'symbolic': 'matrix_k_is_singular'})
    ck.finish()


if __name__ == '__main__':
    core.run_main(main)
