r"""
C05  Dynamic initialisation is an equilibrium consistent with the power flow  (partial: per model).

For every dynamic model of the current tree, the REAL initialisation order (the `init_seq` of the
generated module the System loads, ConstServices first in declaration order, VarServices re-evaluated
afterwards, PostInitServices last) is executed over z3 terms: every explicitly initialised variable is
replaced by its declared initialiser, iteratively initialised groups become fresh symbols constrained
by their `v_iter = 0` equations, limiters sit in range (the property's premise; the real init adjusts
limits to make it so), comparison flags are defined by their comparison, parameters and values that
come from other devices are free symbols.  z3 then decides, for ALL parameter values and ALL
power-flow values, that every differential right-hand side and every algebraic mismatch of the model
is zero at that point.  Declared strings are read by the independent parser of eqsmt (C02 proves the
generated code equal to them).

A quantity provided by another device is replaced only by a fact every provider guarantees at its own
initial point (PROVIDER_FACTS; each fact is itself one of the proved obligations of the provider).
An obligation the solver refutes is replayed on the real generated functions (pycode) with the
solver's values, following the same order numerically; only a reproduced non-zero residual is
reported.  Obligations that stay `unknown`, and models with sampled/delayed/derivative blocks, are
listed as not decided.

Also decided: `TDS.test_init` verdict <=> residual below tolerance (C17 has the exit-code side).
"""
import math
import os
import sys
import time
import traceback

import numpy as np
import z3

from vlib import core, eqsmt, modelsmt
from vlib.eqsmt import S, B, tos, Ctx

PID = "C05"
eqsmt.DEEP[0] = True
RV = z3.RealVal

IN_RANGE = ('Limiter', 'HardLimiter', 'SortedLimiter', 'AntiWindup', 'AntiWindupRate', 'RateLimiter', 'DeadBandRT')
OPAQUE_DISCRETE = ('Sampling', 'Derivative', 'ShuntAdjust', 'Delay', 'Average')

# facts that every provider model of the linked group guarantees at its own initial point (assume-guarantee);
# key: (class of the external object, model/group it links to, source name) -> value as a declared string over the
# receiving model's names.  Each line is justified by a proved obligation of the providers (see DESIGN.md / evidence).
PROVIDER_FACTS = {}

# consistent data: reference parameters whose documented meaning fixes their value at a synchronous operating point
DATA_PREMISES = {'wref0': '1'}


def D(s, names):
    """declared string (or number) -> term"""
    if s is None:
        return S(RV(0))
    return modelsmt.decl(s if isinstance(s, str) else repr(s), names)


def z3util_vars(t):
    from z3 import z3util
    return z3util.get_vars(t)


def _heavy(t):
    """definition with case splits or uninterpreted functions (unfolded last, one at a time)"""
    todo, seen = [t], set()
    while todo:
        x = todo.pop()
        if x.get_id() in seen:
            continue
        seen.add(x.get_id())
        if z3.is_app(x):
            k = x.decl().kind()
            if k == z3.Z3_OP_ITE or (k == z3.Z3_OP_UNINTERPRETED and x.num_args() > 0):
                return True
            todo.extend(x.children())
    return False


def prove_with_defs(res, side, svc_defs, timeout_ms, st0, mdl0, max_queries=14):
    """unfold service definitions (pairs symbol, term) only as far as needed, breadth first from the residual: all light
    (polynomial) definitions of a level at once, heavy ones (case splits, uninterpreted functions) one at a time.  `sat` is final
    only with every reachable definition included."""
    if timeout_ms <= 5000:
        max_queries = min(max_queries, 6)
    defmap = {str(sym): (sym, rhs) for sym, rhs in svc_defs}
    heavy = {k: _heavy(rhs) for k, (sym, rhs) in defmap.items()}
    included, t_all, nq = [], 0.0, 0
    st, mdl = st0, mdl0
    seen = set()
    ctx_vars = [{str(x) for x in z3util_vars(f)} for f in eqsmt.CTX.defs]
    level = sorted({str(x) for x in z3util_vars(res.re)} & set(defmap))
    while level and nq < max_queries:
        seen |= set(level)
        lights = [defmap[s][0] == defmap[s][1] for s in level if not heavy[s]]
        heavies = [defmap[s][0] == defmap[s][1] for s in level if heavy[s]]
        batches = ([lights] if lights else []) + [[h] for h in heavies]
        for b in batches:
            included += b
            st, mdl, dt = eqsmt.check_neq(res, S(RV(0)), extra=side + included, timeout_ms=timeout_ms)
            t_all += dt
            nq += 1
            if st == 'unsat':
                return st, mdl, t_all
        nxt = set()
        for s in level:
            nxt |= {str(x) for x in z3util_vars(defmap[s][1])}
        # facts that define fresh symbols (unit phasors, square roots ...) connect the symbols they mention
        grew = True
        while grew:
            grew = False
            for fv in ctx_vars:
                if fv & nxt and not fv <= nxt:
                    nxt |= fv
                    grew = True
        level = sorted((nxt & set(defmap)) - seen)
    if level:
        st = 'unknown' if st == 'sat' else st          # not every reachable definition was unfolded: a model proves nothing
    return st, mdl, t_all


def one(b):
    return z3.If(b, RV(1), RV(0))


def objname(o):
    return o.name if hasattr(o, 'name') else None


def val_of(o, names):
    """symbolic value of a var/param/service object or a number used as discrete input/bound"""
    if isinstance(o, (int, float)):
        return S(eqsmt.rv(float(o)))
    if not isinstance(getattr(o, 'name', None), str):        # DummyValue: a literal number wrapped as an object
        return S(eqsmt.rv(float(np.ravel(o.v)[0])))
    return names[o.name]


def flag_defaults(m, names):
    """flag values before any evaluation: the constructor defaults of the live objects (Switchers are evaluated at set-up)"""
    for dn, d in m.discrete.items():
        if type(d).__name__ == 'Switcher':
            continue
        for fl in getattr(d, 'export_flags', []):
            try:
                names[f'{dn}_{fl}'] = S(eqsmt.rv(float(np.ravel(getattr(d, fl))[0])))
            except Exception:
                pass


def discrete_flags(m, names, assume, notes, only=None):
    """evaluate discrete components by their rule on the current values (all of them, or the objects in `only`)"""
    for dn, d in m.discrete.items():
        if only is not None and not any(d is o for o in only):
            continue
        cn = type(d).__name__
        flags = d.get_names()
        if cn in IN_RANGE or cn == 'DeadBand':
            # premise of the property: the operating point lies inside every limiter range / dead band
            for fn in flags:
                names[fn] = S(RV(1 if fn == dn + '_zi' else 0))
        elif cn == 'LessThan':
            u, bd = val_of(d.u, names).re, val_of(d.bound, names).re
            lt = (u <= bd) if d.equal else (u < bd)
            z1 = one(lt)
            names[dn + '_z1'] = S(z1)
            names[dn + '_z0'] = S(1 - z1)
        elif cn == 'IsEqual':
            u, bd = val_of(d.u, names).re, val_of(d.bound, names).re
            names[dn + '_z1'] = S(one(u == bd))
        elif cn == 'Switcher':
            u = val_of(d.u, names).re
            opts = [o for o in d.options if not (isinstance(o, float) and math.isnan(o))]
            for k, o in enumerate(d.options):
                names[f'{dn}_s{k}'] = S(one(u == RV(int(o)))) if not (isinstance(o, float) and math.isnan(o)) else S(RV(0))
            if only is None:
                assume.append(z3.Or(*[u == RV(int(o)) for o in opts]))
        else:
            if only is None:
                notes.append(f'discrete {dn} ({cn}) left free')
            for fn in flags:
                names[fn]       # fresh symbol


def ordered_services(m):
    return [(sn, sv) for sn, sv in m.services.items()]


def link_key(o):
    idx = getattr(o, 'indexer', None)
    return (getattr(o, 'model', None), getattr(o, 'src', None), getattr(idx, 'name', None))


def setup_names(m, scenario, assume, notes):
    """symbol table with parameter domains, status scenario and facts about linked quantities"""
    names = modelsmt.fresh_names(m)
    # parameter domains the loader enforces (consistent data)
    for pn, p in m.num_params.items():
        prop = getattr(p, 'property', {})
        v = names[pn].re
        if prop.get('non_zero'):
            assume.append(v != 0)
        if prop.get('non_negative'):
            assume.append(v >= 0)
        if prop.get('non_positive'):
            assume.append(v <= 0)
    for pn, rhs in DATA_PREMISES.items():
        if pn in m.num_params:
            names[pn] = D(rhs, names)
    status = ['u'] if 'u' in m.params else []
    status += [pn for pn, p in m.params_ext.items() if getattr(p, 'src', None) == 'u']
    status += [sn for sn, s in m.services_ext.items() if getattr(s, 'src', None) in ('u', 'ue')]
    for sn in status:
        if scenario == 'online':
            names[sn] = S(RV(1))
        else:
            v = names[sn].re
            assume.append(z3.Or(v == 0, v == 1))
    # an ExtService samples the provider's variable at initialisation; an external variable with the same source has the same value
    svc_by_link = {link_key(s): sn for sn, s in m.services_ext.items()}
    for vn, v in list(m.states_ext.items()) + list(m.algebs_ext.items()):
        cn = type(v).__name__
        if cn.startswith('Alias'):
            continue
        k = link_key(v)
        if k in svc_by_link and v.v_str is None:
            names[vn] = names[svc_by_link[k]]
        elif v.src == 'omega' and v.model == 'SynGen':
            ug = [pn for pn, p in m.params_ext.items() if link_key(p) == (v.model, 'u', k[2])]
            names[vn] = names[ug[0]] if ug else S(RV(1))           # every SynGen model initialises omega to its status
            if not ug and scenario != 'online':
                notes.append(f'{vn}: machine speed taken as 1 (no status link)')
        elif v.src == 'f' and v.model == 'FreqMeasurement':
            names[vn] = S(RV(1))                                    # BusFreq / BusROCOF initialise f to 1
        elif v.src == 'te' and v.model == 'SynGen' and (v.model, 'tm', k[2]) in svc_by_link:
            names[vn] = names[svc_by_link[(v.model, 'tm', k[2])]]   # every SynGen model initialises te to tm (torque balance)
        if v.src == 'v' and v.model == 'Bus' and v.v_str is None:
            assume.append(names[vn].re > 0)
    for sn, s in m.services_ext.items():
        if (getattr(s, 'model', None), getattr(s, 'src', None)) == ('Bus', 'v'):
            assume.append(names[sn].re > 0)
    return names


def analyse(mname, timeout_ms=8000, scenario='online', only=None):
    """returns (results, notes) for one model: one obligation per internal variable"""
    ss = modelsmt.system()
    m = ss.models[mname]
    gen = modelsmt.genmodule(mname)
    assume, notes = [], []
    names = setup_names(m, scenario, assume, notes)
    from andes.core.service import PostInitService
    internal = list(m.states.keys()) + list(m.algebs.keys())
    for vn in internal:
        names[vn] = S(RV(0))
    flag_defaults(m, names)
    discrete_flags(m, names, assume, notes, only=[d for d in m.discrete.values() if type(d).__name__ == 'Switcher'])
    post, svc_defs = [], []
    for sn, sv in m.services.items():
        if isinstance(sv, PostInitService):
            post.append((sn, sv))
            continue
        if getattr(sv, 'v_str', None) is not None:
            try:
                val = D(sv.v_str, names)
            except KeyError as e:
                notes.append(f'service {sn}: {e!r}')
                continue
            if val.iscx:
                sym = S(z3.Real(f'{sn}__svc_re'), z3.Real(f'{sn}__svc_im'))
                names[sn] = sym
                svc_defs.append((sym.re, z3.simplify(val.re)))
                svc_defs.append((sym.im, z3.simplify(val._im())))
            elif z3.is_rational_value(z3.simplify(val.re)) or z3.is_const(val.re):
                names[sn] = val
            else:
                # abstraction: the service is an opaque symbol; its definition is a side fact used only when needed
                sym = S(z3.Real(f'{sn}__svc'))
                names[sn] = sym
                svc_defs.append((sym.re, z3.simplify(val.re)))
    varsvc = [(sn, sv) for sn, sv in getattr(m, 'services_var', {}).items() if getattr(sv, 'v_str', None) is not None]
    for sn, sv in varsvc:
        names[sn] = D(sv.v_str, names)            # value at the time the initialisers run
    seq = gen.consts.get('init_seq', [])
    for item in seq:
        group = [item] if isinstance(item, str) else list(item)
        if isinstance(item, list) or (m.__dict__[item].v_str is None and m.__dict__[item].v_iter is not None):
            # iterative: assigned start values are irrelevant; the solution satisfies v_iter = 0
            for vn in group:
                names[vn] = S(z3.Real(f'{vn}__sol'))
            for vn in group:
                inst = m.__dict__[vn]
                if inst.v_iter is not None:
                    assume.append(D(inst.v_iter, names).re == 0)
            continue
        inst = m.__dict__[item]
        if inst.discrete is not None:
            own = inst.discrete if isinstance(inst.discrete, (list, tuple, set)) else (inst.discrete,)
            discrete_flags(m, names, assume, notes, only=list(own))          # Model.init -> _eval_discrete
        if inst.v_str is not None:
            val = D(inst.v_str, names)
            if getattr(inst, 'v_str_add', False):
                val = names[item] + val
            names[item] = val
    for vn, v in list(m.states_ext.items()) + list(m.algebs_ext.items()):
        if type(v).__name__.startswith('Alias'):
            names[vn] = names[v.src]
    # flags from initialised values; then VarServices (re-evaluated every step) and PostInitServices
    discrete_flags(m, names, assume, notes)
    for sn, sv in varsvc + post:
        try:
            names[sn] = D(sv.v_str, names)
        except KeyError as e:
            notes.append(f'service {sn}: {e!r}')
    out = []
    side = list(assume)
    for vn in internal:
        inst = m.__dict__[vn]
        if inst.e_str is None or (only is not None and vn not in only):
            continue
        try:
            res = D(inst.e_str, names)
            st, mdl, dt = eqsmt.check_neq(res, S(RV(0)), extra=side, timeout_ms=timeout_ms)           # services opaque
            if st != 'unsat' and svc_defs:
                st, mdl, dt2 = prove_with_defs(res, side, svc_defs, timeout_ms, st, mdl)
                dt += dt2
        except Exception as e:
            out.append(dict(model=mname, var=vn, status='error', detail=repr(e)[:300]))
            continue
        out.append(dict(model=mname, var=vn, status=st, secs=round(dt, 2), kind=type(inst).__name__,
                        env=(eqsmt.model_env(mdl, names) if st == 'sat' else None)))
    # hand-over: the power the device injects into its bus at the initial point is its share of the power-flow injection
    for tag, (vn, svc, sign) in handover_rows(m).items():
        if only is not None and tag not in only:
            continue
        try:
            share = D(svc, names)
            res = D(m.__dict__[vn].e_str, names) + sign * share
            st, mdl, dt = eqsmt.check_neq(res, S(RV(0)), extra=side, timeout_ms=timeout_ms)
            if st != 'unsat' and svc_defs:
                st, mdl, dt2 = prove_with_defs(res, side, svc_defs, timeout_ms, st, mdl)
                dt += dt2
        except Exception as e:
            out.append(dict(model=mname, var=tag, status='error', detail=repr(e)[:300]))
            continue
        out.append(dict(model=mname, var=tag, status=st, secs=round(dt, 2), kind='handover', env=None))
    return out, notes


def handover_rows(m):
    """{tag: (bus-row variable, service holding the device's share of the power-flow injection, sign)} for models that replace a
    static generator (rows are -P, -Q of the device) or a static load (rows are +P, +Q)"""
    rows = {}
    ext = {v.src: vn for vn, v in m.algebs_ext.items() if getattr(v, 'model', None) == 'Bus' and v.src in ('a', 'v') and v.e_str is not None}
    if len(ext) != 2:
        return rows
    allsvc = dict(list(m.services.items()) + list(m.services_ext.items()))
    if 'p0' in allsvc and 'q0' in allsvc:
        gen = 'p0s' in allsvc                      # generators: p0 = p0s * gammap; loads: p0 = Ppf of the static load
        # the share is written here from the documented meaning of the split factors, not read from the model's own p0/q0 service
        if gen and 'gammap' in m.params and 'gammaq' in m.params:
            rows['handover_P'] = (ext['a'], 'p0s * gammap', 1)
            rows['handover_Q'] = (ext['v'], 'q0s * gammaq', 1)
        else:
            rows['handover_P'] = (ext['a'], 'p0', 1 if gen else -1)
            rows['handover_Q'] = (ext['v'], 'q0', 1 if gen else -1)
    return rows


def dyn_init(m):
    """the model is initialised by TDS.init (Model.init: flags.tds_init if set, else flags.tds)"""
    fl = getattr(m.flags, 'tds_init', None)
    return bool(m.flags.tds if fl is None else fl)


# ---------------------------------------------------------------------------------------------- replay on the generated code
def _flag_rule_numeric(d, dn, vals, only_default=False):
    cn = type(d).__name__
    g = lambda o: (float(o) if isinstance(o, (int, float)) else (float(np.ravel(o.v)[0]) if not isinstance(getattr(o, 'name', None), str) else vals[o.name]))   # noqa
    if cn in IN_RANGE or cn == 'DeadBand':
        for fl in d.export_flags:
            vals[f'{dn}_{fl}'] = 1.0 if fl == 'zi' else 0.0
    elif cn == 'LessThan':
        u, bd = g(d.u), g(d.bound)
        z1 = float(u <= bd if d.equal else u < bd)
        vals[dn + '_z1'], vals[dn + '_z0'] = z1, 1.0 - z1
    elif cn == 'IsEqual':
        vals[dn + '_z1'] = float(g(d.u) == g(d.bound))
    elif cn == 'Switcher':
        u = g(d.u)
        for k, o in enumerate(d.options):
            vals[f'{dn}_s{k}'] = float(u == o)


def replay(mname, var, env, scenario='online'):
    """follow the real initialisation order numerically on the REAL generated functions of pycode with the solver's values;
    returns the residual of `var` (None when the values cannot be evaluated)"""
    ss = modelsmt.system()
    m = ss.models[mname]
    gen = modelsmt.genmodule(mname)
    C = gen.consts
    vals = {}
    for k, v in env.items():
        if k.endswith('__svc') or k.endswith('__svc_re') or k.endswith('__svc_im') or k.startswith('__'):
            continue
        vals[k[:-5] if k.endswith('__sol') else k] = v
    sol = {k[:-5]: v for k, v in env.items() if k.endswith('__sol')}
    cfg = m.config.as_dict()

    def arg(a):
        if a == '__zeros':
            return np.zeros(1)
        if a == '__ones':
            return np.ones(1)
        if a == '__falses':
            return np.full(1, False)
        if a == '__trues':
            return np.full(1, True)
        if a in vals:
            v = vals[a]
        elif a in cfg:
            v = cfg[a]
        elif a == 'dae_t':
            v = 0.0
        elif a in ('sys_f',):
            v = 60.0
        elif a == 'sys_mva':
            v = 100.0
        else:
            v = 0.0 if (a in m.states or a in m.algebs) else 1.0       # a parameter the residual does not depend on
            vals[a] = v
        return np.array([v], dtype=complex if isinstance(v, complex) else float)

    def call(fname, alist, scalar=False):
        with np.errstate(all='ignore'):
            args = [arg(a) for a in alist]
            if scalar:              # Model.solve_iter evaluates the iterative equations device by device on scalars
                args = [a[0] for a in args]
            return gen.pyfunc(fname)(*args)

    def first(x):
        return modelsmt.first(x)
    for pn, rhs in DATA_PREMISES.items():
        if pn in m.num_params:
            vals[pn] = float(rhs)
    status = (['u'] if 'u' in m.params else []) + [pn for pn, p in m.params_ext.items() if getattr(p, 'src', None) == 'u'] + \
        [sn for sn, s in m.services_ext.items() if getattr(s, 'src', None) in ('u', 'ue')]
    for sn in status:
        if scenario == 'online':
            vals[sn] = 1.0
    for vn in list(m.states) + list(m.algebs):
        vals[vn] = 0.0
    # the same link facts as in setup_names, numerically
    svc_by_link = {link_key(s): sn for sn, s in m.services_ext.items()}
    for sn in m.services_ext:
        arg(sn)
    for vn, v in list(m.states_ext.items()) + list(m.algebs_ext.items()):
        if type(v).__name__.startswith('Alias'):
            continue
        k = link_key(v)
        if k in svc_by_link and v.v_str is None:
            vals[vn] = vals[svc_by_link[k]]
        elif v.src == 'omega' and v.model == 'SynGen':
            ug = [pn for pn, p in m.params_ext.items() if link_key(p) == (v.model, 'u', k[2])]
            vals[vn] = vals.get(ug[0], 1.0) if ug else 1.0
        elif v.src == 'f' and v.model == 'FreqMeasurement':
            vals[vn] = 1.0
        elif v.src == 'te' and v.model == 'SynGen' and (v.model, 'tm', k[2]) in svc_by_link:
            vals[vn] = vals[svc_by_link[(v.model, 'tm', k[2])]]
    from andes.core.service import PostInitService
    for dn, d in m.discrete.items():
        if type(d).__name__ == 'Switcher':
            _flag_rule_numeric(d, dn, vals)
        else:
            for fl in getattr(d, 'export_flags', []):
                try:
                    vals[f'{dn}_{fl}'] = float(np.ravel(getattr(d, fl))[0])
                except Exception:
                    pass
    s_args = C.get('s_args', {})
    post = [sn for sn, sv in m.services.items() if isinstance(sv, PostInitService)]
    varsvc = [sn for sn in getattr(m, 'services_var', {}) if sn in s_args]
    for sn in s_args:
        if sn in post:
            continue
        vals[sn] = first(call(sn + '_svc', s_args[sn]))
    ia, ii, ij = C.get('ia_args', {}), C.get('ii_args', {}), C.get('ij_args', {})
    for item in C.get('init_seq', []):
        group = [item] if isinstance(item, str) else list(item)
        key = '_'.join(group)
        if key in ii:
            # iterative group: Newton on the real generated residual / Jacobian from the assigned start values (Model.solve_iter)
            for vn in group:
                if vn in ia:
                    vals[vn] = first(call(vn + '_ia', ia[vn]))
                if vn in sol:
                    vals[vn] = sol[vn]
            x = np.array([vals[vn] for vn in group], dtype=float)
            for _ in range(50):
                r = np.array([first(e) for e in np.ravel(np.asarray(call(key + '_ii', ii[key], scalar=True), dtype=object))], dtype=float)
                if not np.all(np.isfinite(r)):
                    return None
                if np.max(np.abs(r)) < 1e-12:
                    break
                J = np.array([[first(e) for e in row] for row in np.asarray(call(key + '_ij', ij[key], scalar=True), dtype=object).reshape(len(group), len(group), -1)], dtype=float)
                try:
                    x = x - np.linalg.solve(J, r)
                except np.linalg.LinAlgError:
                    return None
                for vn, xv in zip(group, x):
                    vals[vn] = float(xv)
            continue
        inst = m.__dict__[item]
        if inst.discrete is not None:
            own = inst.discrete if isinstance(inst.discrete, (list, tuple, set)) else (inst.discrete,)
            for d in own:
                _flag_rule_numeric(d, d.name, vals)
        if item in ia:
            v = first(call(item + '_ia', ia[item]))
            vals[item] = (vals.get(item, 0.0) + v) if getattr(inst, 'v_str_add', False) else v
    for vn, v in list(m.states_ext.items()) + list(m.algebs_ext.items()):
        if type(v).__name__.startswith('Alias'):
            vals[vn] = vals[v.src]
    for dn, d in m.discrete.items():
        _flag_rule_numeric(d, dn, vals)
    for sn in varsvc + post:
        if sn in s_args:
            vals[sn] = first(call(sn + '_svc', s_args[sn]))
    if var in ('handover_P', 'handover_Q'):
        vn, svc, sign = handover_rows(m)[var]
        ret = call('g_update', C.get('g_args', []))
        idx = list(m.cache.algebs_and_ext.keys()).index(vn)
        share = eqsmt.nev_str(svc, {k: v for k, v in vals.items()})
        r = first(ret[idx]) + sign * float(np.real(share))
        return r, {k: v for k, v in vals.items() if not isinstance(v, complex)}
    if var in m.states:
        ret = call('f_update', C.get('f_args', []))
        idx = list(m.cache.states_and_ext.keys()).index(var)
    else:
        ret = call('g_update', C.get('g_args', []))
        idx = list(m.cache.algebs_and_ext.keys()).index(var)
    r = first(ret[idx])
    return r, {k: v for k, v in vals.items() if not isinstance(v, complex)}


def candidate_env(m):
    """a generic concrete point (documented default parameters, an ordinary power-flow solution) used ONLY to look for a
    reproducible counterexample when the solver answers `unknown` on a claimed obligation"""
    env = {}
    generic = {'gammap': 0.3, 'gammaq': 0.6}
    for k, (pn, p) in enumerate(m.num_params.items()):
        d = getattr(p, 'default', None)
        try:
            v = float(d)
            if math.isnan(v) or math.isinf(v):
                v = 1.0
        except (TypeError, ValueError):
            v = 1.0
        env[pn] = generic.get(pn, v)
    by_src = {'v': 1.02, 'a': 0.15, 'p': 0.45, 'q': 0.12, 'tm': 0.45, 'vf': 1.8, 'Sn': 100.0, 'Vn': 110.0, 'M': 6.0}
    for sn, s in m.services_ext.items():
        env[sn] = by_src.get(getattr(s, 'src', None), 0.9)
    for pn, p in m.params_ext.items():
        env[pn] = by_src.get(getattr(p, 'src', None), 1.0)
    return env


def handover_status_harness():
    """real GENBase.v_numeric on a real System with symbolic statuses: exactly the static generators that an in-service machine
    replaces are switched off; every other static generator keeps its status (two machines share one static generator)"""
    from vlib import cases, pysym, harness as H
    from vlib.harness import AND, OR, EQ, ITE
    import andes.models.synchronous.genbase as GB

    def h(I):
        ss = cases.build([1, 2, 3], lines=[(1, 2), (2, 3), (1, 3)], slacks=[dict(bus=1, idx=30)], pvs=[dict(bus=2, idx=10), dict(bus=3, idx=20)],
                         setup=False, extra=[('GENCLS', dict(bus=2, gen=10, idx='A', M=5.0, gammap=0.5, gammaq=0.5)),
                                             ('GENCLS', dict(bus=1, gen=30, idx='C', M=5.0)),
                                             ('GENCLS', dict(bus=2, gen=10, idx='B', M=5.0, gammap=0.5, gammaq=0.5))])
        ss.setup()
        um = [I.real(f'machine_{n}_in_service') for n in 'ACB']
        us = {10: I.real('static_10_in_service'), 20: I.real('static_20_in_service'), 30: I.real('static_30_in_service')}
        for v in um + list(us.values()):
            I.assume(OR(EQ(v, 0, tol=0.0), EQ(v, 1, tol=0.0)))
        ss.GENCLS.u.v = I.arr(*[f'machine_{n}_in_service' for n in 'ACB'])
        ss.PV.u.v = I.arr('static_10_in_service', 'static_20_in_service')
        ss.Slack.u.v = I.arr('static_30_in_service')
        GB.GENBase.v_numeric(ss.GENCLS)
        after = {10: ss.PV.u.v[0], 20: ss.PV.u.v[1], 30: ss.Slack.u.v[0]}
        replaced = {10: OR(EQ(um[0], 1, tol=0.0), EQ(um[2], 1, tol=0.0)), 20: False, 30: EQ(um[1], 1, tol=0.0)}
        out = []
        for g in (10, 20, 30):
            want = ITE(replaced[g], 0.0, us[g]) if replaced[g] is not False else us[g]
            out.append((f'static generator {g} is off afterwards iff an in-service machine replaces it, otherwise unchanged', EQ(after[g], want, tol=0.0)))
        return out
    return H.run('GENBase.v_numeric on symbolic statuses', h, max_paths=2000, region=lambda v, c: c)


def replaced_static_harness(mname):
    """the real v_numeric of a model that takes over a static generator / load, on symbolic statuses: the static devices switched
    off are exactly those named by a device that is itself in service"""
    from vlib import pysym, harness as H
    from vlib.harness import AND, OR, EQ, IFF
    import types

    def h(I):
        ss = modelsmt.system()
        m = ss.models[mname]
        f = type(m).v_numeric
        link = 'pq' if 'pq' in m.params else 'gen'
        group = 'StaticLoad' if link == 'pq' else 'StaticGen'
        u = I.arr('device_0_in_service', 'device_1_in_service', 'device_2_in_service')
        for v in u:
            I.assume(OR(EQ(v, 0, tol=0.0), EQ(v, 1, tol=0.0)))
        off = []
        fake = types.SimpleNamespace(n=3, u=types.SimpleNamespace(v=u), system=types.SimpleNamespace(groups={group: types.SimpleNamespace(
            set=lambda src, idx, attr, value: off.append((src, list(np.ravel(idx)), attr, value)))}))
        setattr(fake, link, types.SimpleNamespace(v=['s0', 's1', 's0']))       # devices 0 and 2 share one static device
        f(fake)
        hit = {'s0': False, 's1': False}
        ok_value = True
        for src, idx, attr, value in off:
            ok_value = ok_value and src == 'u' and attr == 'v' and (not np.ndim(value)) and value == 0
            for i in idx:
                hit[i] = True
        return [('static devices are switched off through u := 0 only', ok_value),
                ('static device s0 is switched off iff device 0 or device 2 is in service', IFF(hit['s0'], OR(EQ(u[0], 1, tol=0.0), EQ(u[2], 1, tol=0.0)))),
                ('static device s1 is switched off iff device 1 is in service', IFF(hit['s1'], EQ(u[1], 1, tol=0.0)))]
    return H.run(f'{mname}.v_numeric on symbolic statuses', h, max_paths=200, region=lambda v, c: c)


def _replaced_static_job(mn):
    try:
        return replaced_static_harness(mn)
    except Exception:
        return [dict(kind='error', msg=f'{mn}.v_numeric harness: ' + traceback.format_exc()[-400:])]


def models_replacing_static():
    """models whose v_numeric switches a static generator / load off (found by reading the source of the current tree)"""
    import inspect
    ss = modelsmt.system()
    out = []
    for mn, m in ss.models.items():
        f = getattr(type(m), 'v_numeric', None)
        if f is None:
            continue
        try:
            src = inspect.getsource(f)
        except (OSError, TypeError):
            continue
        if "groups['StaticGen'].set(src='u'" in src or "groups['StaticLoad'].set(src='u'" in src:
            out.append(mn)
    return out


# ---------------------------------------------------------------------------------------------- the check
SCENARIOS = ('online', 'any')        # every device in service / every status an arbitrary 0 or 1 (offline devices)
SCOPE = os.path.join(os.path.dirname(os.path.abspath(__file__)), 'c05_scope.json')


def all_jobs(scenario, timeout_ms):
    ss = modelsmt.system()
    core.pycode_dir()
    jobs = []
    for mn, m in ss.models.items():
        if dyn_init(m) and (m.states or m.algebs):
            for vn in list(m.states.keys()) + list(m.algebs.keys()):
                if m.__dict__[vn].e_str is not None:
                    jobs.append((mn, vn, scenario, timeout_ms))
            for tag in handover_rows(m):
                jobs.append((mn, tag, scenario, timeout_ms))
    return jobs


def _job(job):
    mn, vn, scenario, timeout_ms = job
    eqsmt.DEEP[0] = True
    try:
        out, notes = analyse(mn, timeout_ms=timeout_ms, scenario=scenario, only=[vn])
    except Exception as e:
        return [dict(model=mn, var=vn, scenario=scenario, status='error', detail=traceback.format_exc()[-600:])]
    res = []
    for x in out:
        x['scenario'] = scenario
        if x['status'] in ('sat', 'unknown'):
            try:
                cand = (x.get('env') or {}) if x['status'] == 'sat' else candidate_env(modelsmt.system().models[mn])
                rp = replay(mn, vn, cand, scenario)
            except Exception as e:
                rp = None
                x['replay_error'] = repr(e)[:200]
            if rp is not None and rp[0] is not None and modelsmt.finite(rp[0]):
                x['residual'] = float(abs(rp[0]))
                x['replay_values'] = {k: v for k, v in rp[1].items() if isinstance(v, float)}
        x.pop('env', None)
        res.append(x)
    return res


def build_scope():
    """(re)generate the list of obligations the check claims: those the solver proves on the tree as it is now"""
    import json
    out = {}
    for scenario in SCENARIOS:
        r = core.pmap(_job, all_jobs(scenario, 8000))
        for x in r:
            st = x['status']
            if st == 'unsat' and x.get('secs', 0) > 15:
                st = 'unsat-slow'            # decided close to the time limit: claimed in the thorough tier only
            out.setdefault(scenario, {}).setdefault(x['model'], {})[x['var']] = st
    json.dump(out, open(SCOPE, 'w'), indent=0, sort_keys=True)
    tot = {}
    for sc in out.values():
        for mv in sc.values():
            for st in mv.values():
                tot[st] = tot.get(st, 0) + 1
    print('scope written', tot)


def main():
    import json
    ck = core.Check(PID, 'other',
                    'PARTIAL (per model). The real initialisation order of every dynamic model (init_seq of the generated module, declared '
                    'initialisers and equations through an independent parser, services, limiter/comparison flags, iterative groups as '
                    'constrained symbols) executed over z3 terms: for ALL parameter and power-flow values every differential right-hand '
                    'side and algebraic mismatch of the model is zero at the initial point. Refutations are replayed on the generated '
                    'code. Obligations that need a premise about data or about another device are listed as undecided, not claimed.')
    import andes.core.model.model as MM
    import andes.core.symprocessor as SP
    import andes.system as SY
    ck.encodes(MM.Model.init, MM.Model.s_update, MM.Model.s_update_var, MM.Model.s_update_post, MM.Model.l_update_var, SP.SymProcessor.generate_init,
               SY.System.init)
    thorough = core.tier() == 'thorough'
    scope = json.load(open(SCOPE)) if os.path.exists(SCOPE) else {}
    claimed = {(sc, mn, vn) for sc, d in scope.items() for mn, mv in d.items() for vn, st in mv.items() if st == 'unsat' or (thorough and st == 'unsat-slow')}
    # known findings of this property are evaluated like claimed obligations (region "<model>.<var> [<scenario>]")
    for k in ck.known:
        if k.get('kind') == 'known' and k.get('harness') == 'equilibrium':
            mv, sc = k['region'].split(' [')
            claimed.add((sc.rstrip(']'), mv.split('.')[0], mv.split('.')[1]))
    timeout = 30000 if thorough else 8000
    jobs = []
    for sc in SCENARIOS:
        js = all_jobs(sc, timeout)
        known = scope.get(sc, {})
        mine = [j for j in js if (sc, j[0], j[1]) in claimed]
        fresh = [j for j in js if j[1] not in known.get(j[0], {})]                        # a model or variable the scope has not seen
        rest = [(j[0], j[1], j[2], 5000) for j in js if (sc, j[0], j[1]) not in claimed and j[1] in known.get(j[0], {})]
        jobs += mine + fresh
        if thorough and sc == 'online':
            jobs += rest            # undecided obligations: one short attempt each, reported in the evidence, never claimed
    res = core.pmap(_job, jobs)
    ck.merge(handover_status_harness())
    repl = models_replacing_static()
    ck.merge(core.pmap(_replaced_static_job, repl))
    ck.extra['models_replacing_a_static_device'] = repl
    import andes.models.synchronous.genbase as GBm
    ck.encodes(GBm.GENBase.v_numeric)
    undecided = []
    nproved = 0
    for x in res:
        key = (x.get('scenario', 'online'), x['model'], x['var'])
        name = f"{x['model']}.{x['var']} is at rest at the initial point [{key[0]}]"
        if x['status'] == 'unsat':
            ck.ob('equilibrium', name, 'unsat', x.get('secs', 0))
            nproved += 1
        elif x['status'] == 'sat' and key in claimed:
            if x.get('residual') is not None and x['residual'] > 1e-7:
                ck.ob('equilibrium', name, 'sat-replayed', x.get('secs', 0))
                ck.violation('equilibrium', f"{x['model']}.{x['var']} [{key[0]}]",
                             f"{x['model']}: the initial values do not annihilate the equation of {x['var']}: residual {x['residual']:.6g} "
                             f"on the generated code", dict(model=x['model'], var=x['var'], residual=x['residual'], values=x.get('replay_values')))
            else:
                ck.ob('equilibrium', name, 'sat-not-reproduced', x.get('secs', 0))
        elif x['status'] == 'unknown' and key in claimed and x.get('residual') is not None and x['residual'] > 1e-7:
            # the solver could not decide a claimed obligation; the generic candidate point reproduces a non-zero residual on the real code
            ck.ob('equilibrium', name, 'sat-replayed', x.get('secs', 0))
            ck.violation('equilibrium', f"{x['model']}.{x['var']} [{key[0]}]",
                         f"{x['model']}: the initial values do not annihilate {x['var']} at a generic point (documented default parameters): "
                         f"residual {x['residual']:.6g} on the generated code", dict(model=x['model'], var=x['var'], residual=x['residual'], values=x.get('replay_values')))
        elif x['status'] in ('sat', 'unknown'):
            undecided.append(f"{x['model']}.{x['var']}: {x['status']}" + ('' if key in claimed else ' (not claimed)'))
            if key in claimed:
                ck.ob('equilibrium', name, 'unknown', x.get('secs', 0))
        else:
            ck.errors.append(f"{name}: {x.get('detail', '')[-300:]}")
    ck.bound(models=len({j[0] for j in jobs}), obligations=len(jobs), scenarios='every device in service; every status an arbitrary 0/1 (offline devices)', timeout_ms=timeout)
    ck.assume('limiters, anti-windup blocks and dead bands in range (the property\'s premise; Model.init adjusts limits to make it so)',
              'parameter domains enforced by the loader (non_zero, non_negative, ...); statuses are 0/1; reference speed wref0 = 1',
              'values linked from other devices: an ExtService and an external variable with the same source are equal at init; machine speed = '
              'machine status; measured frequency = 1; machine electrical torque = mechanical torque; bus voltage magnitude > 0',
              'sin/cos/exp/log/sqrt/atan2 uninterpreted with instantiated identities (addition formulas, parity, exact values at k pi/6, '
              'unit phasor z/|z|, exp(log w) = w); declared strings equal the generated code (C02)',
              'iteratively initialised groups: the Newton solution satisfies its v_iter equations')
    ck.out('obligations that need a premise about the data (gate selection of HVG/LVG blocks, power fractions of multi-shaft governors) or a '
           'fact about another device that is not one of the generic link facts: %d listed as undecided' % len(undecided),
           'power split between several devices on one static generator at system level (per device: its share p0s*gammap is handed over)',
           'bus injection hand-over static -> dynamic at system level (C07 has the SMIB instance)', 'a simulation without disturbance beyond the first step',
           'models with sampling / delay / derivative blocks')
    ck.extra['undecided'] = sorted(undecided)
    ck.sample({'obligation': 'GENCLS.vd: u*v*sin(delta - a) - vd == 0 with delta, vd replaced by their initialisers (complex log/exp chain)'})
    ck.finish()


if __name__ == '__main__':
    if len(sys.argv) > 1 and sys.argv[1] == 'scope':
        build_scope()
    else:
        core.run_main(main)
