"""
C02 staleness: "code that no longer matches the model is never silently used".

For a (model, kind-of-string) pair a separate Python process
  * copies the generated code of the current tree to a private scratch directory,
  * alters one declared string of that model class in-process (appending ' + 1'),
  * builds a real andes.System against the OLD generated code (System.undill is expected
    to detect the md5 mismatch and regenerate), and
  * runs the C02 equivalence obligations of that model between the code the System
    LOADED and the NEW declaration.
A stale function that was silently kept is a `sat` that replays.
"""
import json
import os
import shutil
import subprocess
import sys
import tempfile

from vlib import core

QUICK_MODELS = [('GENCLS', 'e_str'), ('PQ', 'service'), ('TGOV1', 'v_str'), ('Line', 'e_str'), ('EXAC1', 'v_iter'),
                ('ESST3A', 'service')]
THOROUGH_KINDS = ('e_str', 'v_str', 'service', 'v_iter')

CHILD = r'''
import sys, json, os
sys.path.insert(0, '/verif')
mname, kind = sys.argv[1], sys.argv[2]
import andes
andes.config_logger(40)
from vlib import core, modelsmt
import importlib
from andes.models import file_classes
cls = None
for fname, clist in file_classes:
    if mname in clist:
        mod = importlib.import_module('andes.models.' + fname)
        cls = getattr(mod, mname)
if cls is None:
    print(json.dumps([{'kind': 'error', 'msg': 'class not found ' + mname}])); sys.exit(0)
orig = cls.__init__
edited = {}
def patched(self, *a, **k):
    orig(self, *a, **k)
    if kind == 'e_str':
        from andes.core.var import BaseVar
        for n, v in list(self.__dict__.items()):
            if isinstance(v, BaseVar) and getattr(v, 'e_str', None):
                v.e_str = '(' + v.e_str + ') + 1'; edited['what'] = n; break
    elif kind == 'v_str':
        from andes.core.var import BaseVar
        for n, v in list(self.__dict__.items()):
            if isinstance(v, BaseVar) and getattr(v, 'v_str', None) and getattr(v, 'v_iter', None) is None:
                v.v_str = '(' + str(v.v_str) + ') + 1'; edited['what'] = n; break
    elif kind == 'v_iter':
        from andes.core.var import BaseVar
        for n, v in list(self.__dict__.items()):
            if isinstance(v, BaseVar) and getattr(v, 'v_iter', None):
                v.v_iter = '(' + str(v.v_iter) + ') + 1'; edited['what'] = n; break
    elif kind == 'service':
        from andes.core.service import ConstService, VarService
        for n, v in list(self.__dict__.items()):
            if isinstance(v, (ConstService, VarService)) and getattr(v, 'v_str', None) and getattr(v, 'vtype', float) != complex:
                v.v_str = '(' + str(v.v_str) + ') + 1'; edited['what'] = n; break
cls.__init__ = patched
os.environ['ANDES_VERIF_NOMP'] = '1'
import andes.system as SY
_p = SY.System.prepare
def prep(self, *a, **k):
    k['nomp'] = True          # this child already is one of several parallel workers
    return _p(self, *a, **k)
SY.System.prepare = prep
from checks import c02
import io, contextlib
buf = io.StringIO()
with contextlib.redirect_stdout(buf):
    res = c02.check_model((mname, int(sys.argv[3])))
out = []
for r in res:
    if r.get('kind') == 'encodes': continue
    r = dict(r)
    if 'harness' in r: r['harness'] = 'stale'
    if 'name' in r: r['name'] = 'after-edit(' + kind + ':' + str(edited.get('what')) + ') ' + r['name']
    if 'region' in r: r['region'] = 'stale:' + kind + ':' + r['region']
    if r.get('kind') == 'violation':
        r['desc'] = 'after editing ' + kind + ' of ' + str(edited.get('what')) + ' the System still executes code of the old declaration: ' + r['desc']
    out.append(r)
if not edited:
    out = [{'harness': 'stale', 'name': mname + ':' + kind, 'status': 'unsat', 'secs': 0, 'nontrivial': False, 'detail': 'no string of this kind'}]
print('@@RESULT@@' + json.dumps(out))
'''


def one(job):
    mname, kind, timeout = job
    src = core.pycode_dir()
    work = tempfile.mkdtemp(prefix='stale-', dir=core.workdir())
    dst = os.path.join(work, 'pycode')
    shutil.copytree(src, dst)
    env = dict(os.environ)
    env['VERIF_PYCODE'] = dst
    env['HOME'] = os.path.join(work, 'home')
    os.makedirs(env['HOME'], exist_ok=True)
    try:
        r = subprocess.run([sys.executable, '-c', CHILD, mname, kind, str(timeout)], capture_output=True, text=True,
                           env=env, timeout=600)
        for line in r.stdout.splitlines():
            if line.startswith('@@RESULT@@'):
                return json.loads(line[len('@@RESULT@@'):])
        return [{'kind': 'error', 'msg': f'stale child {mname}/{kind} gave no result: ' + (r.stdout + r.stderr)[-600:]}]
    finally:
        shutil.rmtree(work, ignore_errors=True)


def run(timeout, models=None):
    if models is None:
        import andes
        from vlib import modelsmt
        ss = modelsmt.system()
        rng_models = list(ss.models.keys())
        models = [(m, k) for m in rng_models for k in THOROUGH_KINDS]
    return core.pmap(one, [(m, k, timeout) for m, k in models])
