"""
C03 assembled level: the matrices System.j_update hands to the Newton solvers equal the
partial derivatives of the ASSEMBLED residual.

A real small System (public API, real setup and PFlow.init) is put at a symbolic operating
point (every state/algebraic variable a symbol, device statuses symbolic 0/1); the real
PFlow.fg_update yields the assembled residual as closed-form terms, the real Model.j_update
+ System.j_update (sparse accumulation through the kvshim stub, both `ipadd` modes) yield
the matrices.  Per path (limiter regions, status patterns) z3 decides for EVERY (row, col)
of gy -- stored or not -- that the entry equals d residual[row] / d var[col] taken by the
structural differentiator of vlib.eqsmt.  A second evaluation after switching a whole model
off must give the derivative of the new residual (no stale buffers); rows of islanded buses:
diagonal = diag_eps, a/v cross terms 0, identical in both accumulation modes.
Replays: the same harness on float arrays with real kvxopt, derivative by central differences
of the real fg_update.
"""
import numpy as np
import z3

from vlib import core, pysym, eqsmt, cases, symsys, kvshim, harness as H
from vlib.harness import AND, OR, NOT, IFF, IMPLIES, EQ, LE, LT

_SYS = {}


def get_sys(name):
    if name not in _SYS:
        if name == 'pf3':
            ss = cases.build([1, 2, 3],
                             lines=[dict(bus1=1, bus2=2, idx='L1', r=0.02, x=0.2, b=0.04, tap=1.05, phi=0.1, g1=0.01, b1=0.02,
                                         g2=0.03, b2=0.05),
                                    dict(bus1=2, bus2=3, idx='L2', r=0.01, x=0.15, b=0.02),
                                    dict(bus1=1, bus2=3, idx='L3', r=0.03, x=0.25, b=0.0)],
                             slacks=[dict(bus=1, idx='S1')], pvs=[dict(bus=2, idx='G2', p0=0.4)],
                             pqs=[dict(bus=3, idx='D3', p0=0.5, q0=0.2), dict(bus=2, idx='D2', p0=0.1, q0=0.05)],
                             shunts=[dict(bus=3, idx='SH3', b=0.1, g=0.01), dict(bus=2, idx='SH2', b=0.05)])
        elif name == 'island3':
            # bus 3 hangs on one line; switching it off islands bus 3 with its load still in service
            ss = cases.build([1, 2, 3],
                             lines=[dict(bus1=1, bus2=2, idx='L1', r=0.02, x=0.2, b=0.04),
                                    dict(bus1=2, bus2=3, idx='L2', r=0.01, x=0.15, b=0.02)],
                             slacks=[dict(bus=1, idx='S1')], pqs=[dict(bus=3, idx='D3', p0=0.5, q0=0.2),
                                                                  dict(bus=2, idx='D2', p0=0.1, q0=0.05)])
        ss.PFlow.init()
        _SYS[name] = ss
    return _SYS[name]


def residual_and_jac(ss, I, ipadd, status=None, second_status=None):
    """one (or two) evaluations of the real fg_update / j_update at the symbolic point"""
    models = ss.PFlow.models
    ss.config.ipadd = ipadd
    if I.symbolic:
        pysym.ENG.div_mode = 'direct'
    info = symsys.prepare(ss, models, I)
    for (mn, vals) in (status or {}).items():
        ss.models[mn].u.v = vals
        ss.models[mn].get_inputs(refresh=True)
    ss.connectivity(info=False) if not I.symbolic else None
    ss.PFlow.niter = 0
    ss.PFlow.mis = [1.0]
    ss.PFlow.fg_update()
    symsys.j_update(ss, models, I)
    if second_status is not None:
        for (mn, vals) in second_status.items():
            ss.models[mn].u.v = vals
            ss.models[mn].get_inputs(refresh=True)
        ss.PFlow.fg_update()
        symsys.j_update(ss, models, I)
    return info


def fd_derivative(ss, I, i, j, h=1e-6):
    """replay oracle: central difference of the real assembled residual g[i] w.r.t. y[j] (concrete mode only)"""
    y0 = ss.dae.y.copy()
    out = []
    for sgn in (+1, -1):
        ss.dae.y[:] = y0
        ss.dae.y[j] += sgn * h
        ss.vars_to_models()
        ss.PFlow.fg_update()
        out.append(float(ss.dae.g[i]))
    ss.dae.y[:] = y0
    ss.vars_to_models()
    ss.PFlow.fg_update()
    return (out[0] - out[1]) / (2 * h)


def claims_gy(ss, I, info, skip_rows=()):
    """gy[i,j] == d g[i] / d y[j] for every pair"""
    m = ss.dae.m
    out = []
    gy = ss.dae.gy
    if I.symbolic:
        gterms = [pysym.lift(v) for v in ss.dae.g]
        ysyms = [pysym.lift(v) for v in info['y']]
        side = list(pysym.ENG.defs)
        for i in range(m):
            if i in skip_rows:
                continue
            for j in range(m):
                d = eqsmt.diff(gterms[i], ysyms[j])
                ent = pysym.lift(symsys.entry(gy, i, j))
                ax = eqsmt.trig_axioms([d, ent] + side)
                out.append((f'gy[{ss.dae.y_name[i]},{ss.dae.y_name[j]}] = d residual / d variable',
                            pysym.SB(z3.Implies(z3.And(*ax) if ax else z3.BoolVal(True),
                                                z3.Or(ent == d, ent == d + pysym.ratval(ss.config.diag_eps)) if i == j else ent == d))))
    else:
        for i in range(m):
            if i in skip_rows:
                continue
            for j in range(m):
                ent = float(gy[i, j])
                fd = fd_derivative(ss, I, i, j)
                out.append((f'gy[{ss.dae.y_name[i]},{ss.dae.y_name[j]}] = d residual / d variable',
                            abs(ent - fd) <= 1e-5 * max(1.0, abs(fd), abs(ent))))
    return out


def h_pf3(ipadd):
    def h(I):
        ss = get_sys('pf3')
        us = I.arr('uSH3', 'uSH2')
        ul = I.arr('uL1', 1.0, 1.0)
        for v in list(us) + [ul[0]]:
            I.assume(OR(EQ(v, 0, tol=0.0), EQ(v, 1, tol=0.0)))
        info = residual_and_jac(ss, I, ipadd, status={'Shunt': us, 'Line': ul})
        return claims_gy(ss, I, info)
    return h


def h_stale(ipadd):
    """evaluate with all shunts in service, switch the whole Shunt model off, evaluate again"""
    def h(I):
        ss = get_sys('pf3')
        n = ss.Shunt.n
        info = residual_and_jac(ss, I, ipadd, status={'Shunt': I.to_obj(np.ones(n)), 'Line': I.to_obj(np.ones(ss.Line.n))},
                                second_status={'Shunt': I.to_obj(np.zeros(n))})
        return [(c[0] + ' after a whole model was switched off', c[1]) for c in claims_gy(ss, I, info)]
    return h


def h_island(ipadd):
    def h(I):
        ss = get_sys('island3')
        ul = I.to_obj(np.array([1.0, 0.0]))          # line L2 out: bus 3 islanded, its load stays in service
        ss.Line.u.v = ul
        ss.connectivity(info=False)
        isl = list(ss.Bus.islanded_buses)
        info = residual_and_jac(ss, I, ipadd, status={'Line': ul})
        rows = [int(ss.Bus.a.a[b]) for b in isl] + [int(ss.Bus.v.a[b]) for b in isl]
        out = claims_gy(ss, I, info, skip_rows=rows)
        gy = ss.dae.gy
        eps = ss.config.diag_eps
        for b in isl:
            a, v = int(ss.Bus.a.a[b]), int(ss.Bus.v.a[b])
            out.append((f'islanded bus {b}: diagonal of the a and v rows is diag_eps',
                        AND(EQ(symsys.entry(gy, a, a), eps), EQ(symsys.entry(gy, v, v), eps))))
            out.append((f'islanded bus {b}: a/v cross terms are zeroed', AND(EQ(symsys.entry(gy, a, v), 0.0),
                                                                             EQ(symsys.entry(gy, v, a), 0.0))))
        out.append(('an islanded bus exists in this case', len(isl) == 1))
        return out
    return h


def job(spec):
    kind, ipadd = spec
    fn = {'pf3': h_pf3, 'stale': h_stale, 'island': h_island}[kind](ipadd)
    return H.run(f'assembled gy [{kind}, ipadd={ipadd}]', fn, timeout_ms=20000, max_paths=400,
                 region=lambda v, c: c.split('[')[0].split(':')[0].strip() + (' after a whole model was switched off' if 'switched off' in c else ''))


def run(thorough):
    res = []
    import andes.system as SY
    import andes.routines.pflow as PF
    bad = kvshim.selftest(core.seed(), 60)
    if bad:
        res.append(dict(kind='error', msg='kvshim disagrees with kvxopt'))
    jobs = [('pf3', 1), ('stale', 1), ('island', 1), ('island', 0)] + ([('pf3', 0), ('stale', 0)] if thorough else [])
    res += core.pmap(job, jobs)
    res.append(dict(kind='encodes', functions={core.qualname(PF.PFlow.fg_update): core.src_sha(PF.PFlow.fg_update),
                                               core.qualname(SY.System.fg_to_dae): core.src_sha(SY.System.fg_to_dae),
                                               core.qualname(SY.System.g_islands): core.src_sha(SY.System.g_islands)}))
    return res
