r"""
C13  Case files round-trip; one case in different formats is one system  (partial).

Decided here, on the real converters of andes/io/matpower.py executed under pysym:
  * mpc2system on symbolic bus / gen / branch rows (System.add replaced by a recorder, the
    bus table by the recorded buses): every emitted device carries the MATPOWER semantics of
    the row -- MW -> p.u. by baseMVA, degrees -> radians, per-unit impedances on the system
    base (so the device's own base must reproduce them), ratio 0 => tap 1, the phase shift
    applies to every branch, status, PV / slack by bus type, load / shunt only when non-zero;
  * system2mpc on stub systems with symbolic values, including several loads / shunts on
    one bus and offline devices: each bus row holds the SUM of the in-service loads and shunts
    of that bus, generator and branch rows hold the device data;
  * round trip mpc -> system -> mpc is the identity on the supported columns.
Not applicable to a solver: reading and writing xlsx / json / raw / dyr FILES (pandas, openpyxl,
text -> float conversion, yaml-driven dyr mapping).
"""
import math
import types

import numpy as np
import z3

from vlib import core, pysym, harness as H
from vlib.harness import AND, OR, NOT, IFF, IMPLIES, EQ, LE, LT, ITE

PID = 'C13'
NS = types.SimpleNamespace
DEG = math.pi / 180.0


class Recorder:
    """System stand-in for mpc2system: records `add` calls, serves the Bus look-ups the converter makes"""

    def __init__(self):
        self.config = NS(mva=None)
        self.devs = []
        self.Bus = NS(idx2uid=self._uid, Vn=NS(v=[]), a0=NS(v=[]), name=NS(v=[]), _idx=[])

    def _uid(self, idx):
        return self.Bus._idx.index(idx)

    def add(self, model, **kw):
        self.devs.append((model, kw))
        if model == 'Bus':
            self.Bus._idx.append(kw['idx'])
            self.Bus.Vn.v.append(kw['Vn'])
            self.Bus.a0.v.append(kw['a0'])
            self.Bus.name.v.append(kw['name'])

    def of(self, model):
        return [kw for m, kw in self.devs if m == model]


def angle_units(I):
    """(deg2rad, rad2deg): in exploration two symbols with deg2rad*rad2deg = 1 (the binary64 constants are not exact
    inverses: that is rounding, not semantics); in replay the real constants"""
    if not I.symbolic:
        return DEG, 1.0 / DEG
    d, r = I.real('deg2rad'), I.real('rad2deg')
    I.assume(LT(0, d))
    I.assume(EQ(d * r, 1))
    return d, r


def defaults():
    ss = core.new_system()
    return {'Line.Sn': float(ss.Line.Sn.default), 'Shunt.Sn': float(ss.Shunt.Sn.default)}


_DEF = {}


def sys_value(kind, emitted, key, bases, Vb, Sb):
    """system-base per-unit value of an emitted device parameter (textbook conversion from the device's own base)"""
    Sn = emitted.get('Sn', _DEF[f'{kind}.Sn'])
    Vn = emitted.get('Vn1' if kind == 'Line' else 'Vn')
    zf = (Vn * Vn / Sn) / (Vb * Vb / Sb)
    v = emitted[key]
    return v * zf if key in ('r', 'x') else v / zf


def h_bus_row(bus_type):
    def h(I):
        import andes.io.matpower as MP
        base = I.real('baseMVA')
        I.assume(LT(0, base))
        row = [7, bus_type] + [I.real(n) for n in ('pd', 'qd', 'gs', 'bs', 'area', 'vmag', 'vang', 'baseKV', 'zone', 'vmax', 'vmin')]
        I.assume(LE(0, row[9]))
        mpc = dict(baseMVA=base, bus=[row], gen=[], branch=[])
        rec = Recorder()
        DEGs, _ = angle_units(I)
        f = pysym.rebind(MP.mpc2system, deg2rad=DEGs)
        f(mpc, rec)
        pd, qd, gs, bs, kv = row[2], row[3], row[4], row[5], row[9]
        buses, pqs, shs = rec.of('Bus'), rec.of('PQ'), rec.of('Shunt')
        out = [('system base is the file baseMVA', EQ(rec.config.mva, base, tol=0.0)), ('one bus per bus row', len(buses) == 1)]
        b = buses[0]
        vb = ITE(EQ(kv, 0, tol=0.0), 110.0, kv)
        out.append(('bus: index, nominal voltage (110 kV if unspecified), voltage guess in p.u. and radians, limits',
                    AND(b['idx'] == 7, EQ(b['Vn'], vb), EQ(b['v0'], row[7]), EQ(b['a0'], row[8] * DEGs), EQ(b['vmax'], row[11]), EQ(b['vmin'], row[12]))))
        has_load = OR(NOT(EQ(pd, 0, tol=0.0)), NOT(EQ(qd, 0, tol=0.0)))
        out.append(('a load is created <=> the bus has non-zero demand', IFF(len(pqs) == 1, has_load)))
        if pqs:
            out.append(('load: on this bus, demand in p.u. of baseMVA (any sign)',
                        AND(pqs[0]['bus'] == 7, EQ(pqs[0]['p0'] * base, pd), EQ(pqs[0]['q0'] * base, qd))))
        has_sh = OR(NOT(EQ(gs, 0, tol=0.0)), NOT(EQ(bs, 0, tol=0.0)))
        out.append(('a shunt is created <=> the bus has non-zero shunt MW/MVAr', IFF(len(shs) == 1, has_sh)))
        if shs:
            s = shs[0]
            out.append(('shunt: on this bus, admittance on the SYSTEM base equals (Gs + jBs)/baseMVA',
                        AND(s['bus'] == 7, EQ(sys_value('Shunt', s, 'g', None, vb, base) * base, gs),
                            EQ(sys_value('Shunt', s, 'b', None, vb, base) * base, bs))))
        return out
    return h


def h_gen_row(bus_type, status):
    def h(I):
        import andes.io.matpower as MP
        base = I.real('baseMVA')
        I.assume(LT(0, base))
        brow = [3, bus_type, 0.0, 0.0, 0.0, 0.0, 1, 1.0, I.real('vang'), I.real('baseKV'), 1, 1.1, 0.9]
        I.assume(LT(0, brow[9]))
        g = [3] + [I.real(n) for n in ('pg', 'qg', 'qmax', 'qmin', 'vg')] + [base, status] + [I.real('pmax'), I.real('pmin')] + [0.0] * 11
        mpc = dict(baseMVA=base, bus=[brow], gen=[g], branch=[])
        rec = Recorder()
        DEGs, _ = angle_units(I)
        f = pysym.rebind(MP.mpc2system, deg2rad=DEGs)
        f(mpc, rec)
        kind = 'Slack' if bus_type == 3 else 'PV'
        other = 'PV' if bus_type == 3 else 'Slack'
        gs = rec.of(kind)
        out = [('generator on a reference bus becomes a slack, otherwise a PV', len(gs) == 1 and len(rec.of(other)) == 0)]
        if gs:
            d = gs[0]
            out.append(('generator: bus, status, set-points and limits in p.u. of baseMVA, voltage set-point',
                        AND(d['bus'] == 3, d['u'] == status, EQ(d['p0'] * base, g[1]), EQ(d['q0'] * base, g[2]), EQ(d['qmax'] * base, g[3]),
                            EQ(d['qmin'] * base, g[4]), EQ(d['v0'], g[5]), EQ(d['pmax'] * base, g[8]), EQ(d['pmin'] * base, g[9]),
                            EQ(d['Vn'], brow[9]))))
            if kind == 'Slack':
                out.append(('slack reference angle is the bus angle in radians', EQ(d['a0'], brow[8] * DEGs)))
        return out
    return h


def h_branch_row(status):
    def h(I):
        import andes.io.matpower as MP
        base = I.real('baseMVA')
        I.assume(LT(0, base))
        kv1, kv2 = I.real('baseKV1'), I.real('baseKV2')
        I.assume(LT(0, kv1)); I.assume(LT(0, kv2))
        b1 = [1, 3, 0.0, 0.0, 0.0, 0.0, 1, 1.0, 0.0, kv1, 1, 1.1, 0.9]
        b2 = [2, 1, 0.0, 0.0, 0.0, 0.0, 1, 1.0, 0.0, kv2, 1, 1.1, 0.9]
        br = [1, 2] + [I.real(n) for n in ('r', 'x', 'b', 'rateA', 'rateB', 'rateC', 'ratio', 'angle')] + [status] + [0.0] * 6
        mpc = dict(baseMVA=base, bus=[b1, b2], gen=[], branch=[br])
        rec = Recorder()
        DEGs, _ = angle_units(I)
        f = pysym.rebind(MP.mpc2system, deg2rad=DEGs)
        f(mpc, rec)
        ls = rec.of('Line')
        out = [('one branch device per branch row', len(ls) == 1)]
        if ls:
            d = ls[0]
            ratio, angle = br[8], br[9]
            out.append(('branch: end buses and status', d['bus1'] == 1 and d['bus2'] == 2 and d['u'] == status))
            out.append(('branch: tap is the ratio, 1 when the ratio is 0 (MATPOWER convention)',
                        EQ(d['tap'], ITE(EQ(ratio, 0, tol=0.0), 1.0, ratio))))
            out.append(('branch: the phase shift applies to every branch, in radians', EQ(d['phi'], angle * DEGs)))
            for k, col in (('r', 2), ('x', 3), ('b', 4)):
                out.append((f'branch: {k} on the SYSTEM base equals the per-unit value of the file',
                            EQ(sys_value('Line', d, k, None, kv1, base), br[col])))
        return out
    return h


def stub_system(I, base, pv_bus=2):
    """2 buses; loads D0,D1 on bus 1 and D2 on bus 2; shunts C0,C1 on bus 2; one PV, one slack, one line"""
    A = I.arr
    Bus = NS(n=2, idx=NS(v=[1, 2]), v0=NS(v=A('b0_v0', 'b1_v0')), a0=NS(v=A('b0_a0', 'b1_a0')), Vn=NS(v=A('b0_Vn', 'b1_Vn')),
             vmax=NS(v=A('b0_vmax', 'b1_vmax')), vmin=NS(v=A('b0_vmin', 'b1_vmin')), name=NS(v=['B1', 'B2']),
             idx2uid=lambda idx: [i - 1 for i in idx] if isinstance(idx, (list, tuple, np.ndarray)) else idx - 1)
    PQ = NS(n=3, bus=NS(v=[1, 1, 2]), p0=NS(v=A('D0_p0', 'D1_p0', 'D2_p0')), q0=NS(v=A('D0_q0', 'D1_q0', 'D2_q0')),
            u=NS(v=A('D0_u', 'D1_u', 'D2_u')))
    Sh = NS(n=2, bus=NS(v=[2, 2]), g=NS(v=A('C0_g', 'C1_g')), b=NS(v=A('C0_b', 'C1_b')), u=NS(v=A('C0_u', 'C1_u')))
    for u in list(PQ.u.v) + list(Sh.u.v):
        I.assume(OR(EQ(u, 0, tol=0.0), EQ(u, 1, tol=0.0)))
    gen = lambda t, bus: NS(n=1, bus=NS(v=[bus]), **{k: NS(v=A(f'{t}_{k}')) for k in ('p0', 'q0', 'qmax', 'qmin', 'v0', 'u', 'pmax', 'pmin', 'a0')})
    PV, SL = gen('G', pv_bus), gen('S', 1)
    Line = NS(n=1, bus1=NS(v=[1]), bus2=NS(v=[2]), **{k: NS(v=A(f'L_{k}')) for k in ('r', 'x', 'b', 'rate_a', 'rate_b', 'rate_c', 'tap', 'phi', 'u')})
    return NS(config=NS(mva=base), Bus=Bus, PQ=PQ, Shunt=Sh, PV=PV, Slack=SL, Line=Line)


def h_system2mpc_pv_on_slack_bus(I):
    """a PV device on the swing bus does not take the reference mark away from it"""
    import andes.io.matpower as MP
    base = I.real('baseMVA')
    I.assume(LT(0, base))
    ss = stub_system(I, base, pv_bus=1)
    DEGs, rad2deg = angle_units(I)
    f = pysym.rebind(MP.system2mpc, np=pysym.NPXO if I.symbolic else np, rad2deg=rad2deg, deg2rad=DEGs)
    mpc = f(ss)
    bus, gen = mpc['bus'], mpc['gen']
    return [('the swing bus is exported as reference bus (type 3) although a PV device sits on it too', EQ(bus[0, 1], 3, tol=0.0)),
            ('the bus without generator is exported as PQ bus (type 1)', EQ(bus[1, 1], 1, tol=0.0)),
            ('both generators are exported on the swing bus', gen.shape[0] == 2 and EQ(gen[0, 0], 1, tol=0.0) and EQ(gen[1, 0], 1, tol=0.0))]


def h_system2mpc(I):
    import andes.io.matpower as MP
    base = I.real('baseMVA')
    I.assume(LT(0, base))
    ss = stub_system(I, base)
    DEGs, rad2deg = angle_units(I)
    f = pysym.rebind(MP.system2mpc, np=pysym.NPXO if I.symbolic else np, rad2deg=rad2deg,
                     _get_bus_id_caller=lambda bus: (lambda x: x))
    mpc = f(ss)
    bus, gen, br = mpc['bus'], mpc['gen'], mpc['branch']
    out = [('baseMVA exported', EQ(mpc['baseMVA'], base, tol=0.0))]
    P, Q, Sh = ss.PQ, ss.PQ, ss.Shunt
    for k, b in enumerate((1, 2)):
        pd = sum(P.u.v[i] * P.p0.v[i] for i in range(3) if P.bus.v[i] == b) * base
        qd = sum(P.u.v[i] * P.q0.v[i] for i in range(3) if P.bus.v[i] == b) * base
        gsv = sum(Sh.u.v[i] * Sh.g.v[i] for i in range(2) if Sh.bus.v[i] == b) * base
        bsv = sum(Sh.u.v[i] * Sh.b.v[i] for i in range(2) if Sh.bus.v[i] == b) * base
        out.append((f'bus row {b}: demand is the sum of the in-service loads on the bus, in MW/MVAr', AND(EQ(bus[k, 2], pd), EQ(bus[k, 3], qd))))
        out.append((f'bus row {b}: shunt is the sum of the in-service shunts on the bus, in MW/MVAr at 1 p.u.', AND(EQ(bus[k, 4], gsv), EQ(bus[k, 5], bsv))))
        out.append((f'bus row {b}: nominal voltage and limits', AND(EQ(bus[k, 9], ss.Bus.Vn.v[k], tol=0.0), EQ(bus[k, 11], ss.Bus.vmax.v[k], tol=0.0),
                                                                  EQ(bus[k, 12], ss.Bus.vmin.v[k], tol=0.0))))
    out.append(('bus types: slack bus 3, PV bus 2', EQ(bus[0, 1], 3, tol=0.0) and EQ(bus[1, 1], 2, tol=0.0)))
    for row, g in ((0, ss.Slack), (1, ss.PV)):
        out.append((f'generator row {row}: bus, powers and limits in MW, set-point, status',
                    AND(EQ(gen[row, 0], g.bus.v[0], tol=0.0), EQ(gen[row, 1], g.p0.v[0] * base), EQ(gen[row, 2], g.q0.v[0] * base),
                        EQ(gen[row, 3], g.qmax.v[0] * base), EQ(gen[row, 4], g.qmin.v[0] * base), EQ(gen[row, 5], g.v0.v[0], tol=0.0),
                        EQ(gen[row, 7], g.u.v[0], tol=0.0), EQ(gen[row, 8], g.pmax.v[0] * base), EQ(gen[row, 9], g.pmin.v[0] * base))))
    L = ss.Line
    out.append(('branch row: buses, r, x, b, tap, shift in degrees, status',
                AND(EQ(br[0, 0], 1, tol=0.0), EQ(br[0, 1], 2, tol=0.0), EQ(br[0, 2], L.r.v[0], tol=0.0), EQ(br[0, 3], L.x.v[0], tol=0.0),
                    EQ(br[0, 4], L.b.v[0], tol=0.0), EQ(br[0, 8], L.tap.v[0], tol=0.0), EQ(br[0, 9] * DEGs, L.phi.v[0]), EQ(br[0, 10], L.u.v[0], tol=0.0))))
    return out


def h_roundtrip(I):
    """branch + bus rows: mpc -> (recorded devices, textbook conversion to system base) -> mpc"""
    import andes.io.matpower as MP
    base = I.real('baseMVA')
    I.assume(LT(0, base))
    kv = I.real('baseKV')
    I.assume(LT(0, kv))
    b1 = [1, 3, I.real('pd'), I.real('qd'), I.real('gs'), I.real('bs'), 1, I.real('vm'), I.real('va'), kv, 1, I.real('vmax'), I.real('vmin')]
    b2 = [2, 1, 0.0, 0.0, 0.0, 0.0, 1, 1.0, 0.0, kv, 1, 1.1, 0.9]
    br = [1, 2, I.real('r'), I.real('x'), I.real('b'), 0.0, 0.0, 0.0, I.real('ratio'), I.real('angle'), 1] + [0.0] * 6
    I.assume(LT(0, br[8]))
    deg, rad2deg = angle_units(I)
    rec = Recorder()
    pysym.rebind(MP.mpc2system, deg2rad=deg)(dict(baseMVA=base, bus=[b1, b2], gen=[], branch=[br]), rec)
    A = (lambda xs: pysym.oarr(list(xs))) if I.symbolic else (lambda xs: np.array([float(x) for x in xs]))
    buses, pqs, shs, ls = rec.of('Bus'), rec.of('PQ'), rec.of('Shunt'), rec.of('Line')
    Bus = NS(n=2, idx=NS(v=[1, 2]), v0=NS(v=A(b['v0'] for b in buses)), a0=NS(v=A(b['a0'] for b in buses)), Vn=NS(v=A(b['Vn'] for b in buses)),
             vmax=NS(v=A(b['vmax'] for b in buses)), vmin=NS(v=A(b['vmin'] for b in buses)), name=NS(v=['1', '2']),
             idx2uid=lambda idx: [i - 1 for i in idx] if isinstance(idx, (list, tuple, np.ndarray)) else idx - 1)
    PQ = NS(n=len(pqs), bus=NS(v=[d['bus'] for d in pqs]), p0=NS(v=A(d['p0'] for d in pqs)), q0=NS(v=A(d['q0'] for d in pqs)),
            u=NS(v=A(1.0 for d in pqs)))
    Sh = NS(n=len(shs), bus=NS(v=[d['bus'] for d in shs]), g=NS(v=A(sys_value('Shunt', d, 'g', None, kv, base) for d in shs)),
            b=NS(v=A(sys_value('Shunt', d, 'b', None, kv, base) for d in shs)), u=NS(v=A(1.0 for d in shs)))
    d = ls[0]
    Line = NS(n=1, bus1=NS(v=[1]), bus2=NS(v=[2]), r=NS(v=A([sys_value('Line', d, 'r', None, kv, base)])),
              x=NS(v=A([sys_value('Line', d, 'x', None, kv, base)])), b=NS(v=A([sys_value('Line', d, 'b', None, kv, base)])),
              rate_a=NS(v=A([0.0])), rate_b=NS(v=A([0.0])), rate_c=NS(v=A([0.0])), tap=NS(v=A([d['tap']])), phi=NS(v=A([d['phi']])),
              u=NS(v=A([float(d['u'])])))
    empty = NS(n=0, bus=NS(v=[]))
    ss = NS(config=NS(mva=base), Bus=Bus, PQ=PQ, Shunt=Sh, PV=empty, Slack=empty, Line=Line)
    mpc = pysym.rebind(MP.system2mpc, np=pysym.NPXO if I.symbolic else np, rad2deg=rad2deg,
                       _get_bus_id_caller=lambda bus: (lambda x: x))(ss)
    out = [('round trip keeps the bus demand', AND(EQ(mpc['bus'][0, 2], b1[2]), EQ(mpc['bus'][0, 3], b1[3]))),
           ('round trip keeps the bus shunt', AND(EQ(mpc['bus'][0, 4], b1[4]), EQ(mpc['bus'][0, 5], b1[5]))),
           ('round trip keeps the bus voltage data', AND(EQ(mpc['bus'][0, 7], b1[7]), EQ(mpc['bus'][0, 9], kv), EQ(mpc['bus'][0, 11], b1[11]),
                                                          EQ(mpc['bus'][0, 12], b1[12]))),
           ('round trip keeps r, x, b of the branch', AND(EQ(mpc['branch'][0, 2], br[2]), EQ(mpc['branch'][0, 3], br[3]), EQ(mpc['branch'][0, 4], br[4]))),
           ('round trip keeps ratio and shift of a transformer', AND(EQ(mpc['branch'][0, 8], br[8]), EQ(mpc['branch'][0, 9], br[9])))]
    return out


# ---------------------------------------------------------------- PSS/E v33 record parsers
class PsseSys:
    """System stand-in for the PSS/E record parsers: bus table with symbolic nominal voltages / voltage guesses"""

    def __init__(self, I, buses, mva):
        self.config = NS(mva=mva)
        self._vn = {b: I.real(f'Vn_bus{b}') for b in buses}
        self._v0 = {b: I.real(f'v0_bus{b}') for b in buses}
        for v in self._vn.values():
            I.assume(LT(0, v))
        self.Bus = NS(get=self._get, idx=NS(v=list(buses)))

    def _get(self, src, idx, attr='v'):
        if src == 'Vn':
            return self._vn[idx]
        if src == 'v0':
            return self._v0[idx]
        return 1


def _psse(fname, **extra):
    import andes.io.psse as PS
    f = getattr(PS, fname)
    return pysym.rebind(f, _add_devices_from_dict=lambda out, system: None, logger=NS(warning=lambda *a, **k: None, debug=lambda *a, **k: None,
                                                                                     info=lambda *a, **k: None), **extra)


def h_psse_branch(I):
    mva = I.real('SBASE'); I.assume(LT(0, mva))
    ss = PsseSys(I, [1, 2], mva)
    row = [1, 2, '1 '] + [I.real(n) for n in ('R', 'X', 'B', 'RATEA', 'RATEB', 'RATEC', 'GI', 'BI', 'GJ', 'BJ')] + [1, 0.0, 1, 1.0]
    out = _psse('_parse_line_v33')({'branch': [row]}, ss)
    d = out['Line'][0]
    vb = ss._vn[1]
    res = [('branch: end buses and status', d['bus1'] == 1 and d['bus2'] == 2 and d['u'] == 1)]
    for k, col in (('r', 3), ('x', 4), ('b', 5)):
        res.append((f'branch: {k} on the SYSTEM base equals the per-unit value of the record',
                    EQ(sys_value('Line', d, k, None, vb, mva), row[col])))
    for k, col in (('g1', 9), ('b1', 10), ('g2', 11), ('b2', 12)):
        res.append((f'branch: line-end shunt {k} of the record is kept (system base)',
                    EQ((d.get(k, 0.0) / ((d['Vn1'] * d['Vn1'] / d.get('Sn', _DEF['Line.Sn'])) / (vb * vb / mva))), row[col])))
    return res


def h_psse_load_shunt_gen(I):
    mva = I.real('SBASE'); I.assume(LT(0, mva))
    ss = PsseSys(I, [1, 2], mva)
    DEGs, _ = angle_units(I)
    load = [1, '1 ', 1, 1, 1] + [I.real(n) for n in ('PL', 'QL', 'IP', 'IQ', 'YP', 'YQ')] + [1, 1]
    o = _psse('_parse_load_v33')({'load': [load]}, ss)['PQ'][0]
    v0 = ss._v0[1]
    res = [('load: bus, status, constant-power + constant-current + constant-admittance parts at the initial voltage, in p.u. of SBASE',
            AND(o['bus'] == 1, o['u'] == 1, EQ(o['p0'] * mva, load[5] + load[7] * v0 + load[9] * v0 * v0),
                EQ(o['q0'] * mva, load[6] + load[8] * v0 - load[10] * v0 * v0)))]
    fs = [2, '1 ', 1, I.real('GL'), I.real('BL')]
    s = _psse('_parse_fshunt_v33')({'fshunt': [fs]}, ss)['Shunt'][0]
    vb = ss._vn[2]
    res.append(('fixed shunt: bus, status, MW/MVAr at 1 p.u. reproduced on the system base',
                AND(s['bus'] == 2, s['u'] == 1, EQ(sys_value('Shunt', s, 'g', None, vb, mva) * mva, fs[3]),
                    EQ(sys_value('Shunt', s, 'b', None, vb, mva) * mva, fs[4]))))
    gen = [1, '1 '] + [I.real(n) for n in ('PG', 'QG', 'QT', 'QB', 'VS')] + [0, I.real('MBASE'), I.real('ZR'), I.real('ZX'), 0.0, 0.0, 1.0, 1, 100.0,
                                                                               I.real('PT'), I.real('PB')] + [1, 1.0] + [0] * 8
    a0 = I.real('slack_angle')
    # a record that stops after the ownership fields (26 values: WMOD and WPF are optional) is read like the full record
    short = _psse('_parse_gen_v33')({'gen': [gen[:26]]}, ss, {})
    res.append(('generator record without the optional trailing fields is read', len(short['PV']) == 1 and len(gen) >= 27))
    for is_slack in (True, False):
        g = _psse('_parse_gen_v33')({'gen': [gen]}, ss, {1: a0} if is_slack else {})
        kind = 'Slack' if is_slack else 'PV'
        ok = len(g[kind]) == 1 and len(g['PV' if is_slack else 'Slack']) == 0
        res.append((f'generator on {"the swing" if is_slack else "an ordinary"} bus becomes a {kind}', ok))
        if ok:
            d = g[kind][0]
            res.append((f'{kind}: bus, status, machine base, powers and limits in p.u. of SBASE, voltage set-point',
                        AND(d['bus'] == 1, d['u'] == 1, EQ(d['Sn'], gen[8], tol=0.0), EQ(d['p0'] * mva, gen[2]), EQ(d['q0'] * mva, gen[3]),
                            EQ(d['qmax'] * mva, gen[4]), EQ(d['qmin'] * mva, gen[5]), EQ(d['v0'], gen[6], tol=0.0),
                            EQ(d['pmax'] * mva, gen[16]), EQ(d['pmin'] * mva, gen[17]))))
            if is_slack:
                res.append(('Slack: reference angle is the swing-bus angle', EQ(d['a0'], a0, tol=0.0)))
    return res


def h_psse_transf2(cw, cz):
    def h(I):
        mva = I.real('SBASE'); I.assume(LT(0, mva))
        ss = PsseSys(I, [1, 2], mva)
        DEGs, _ = angle_units(I)
        r0 = [1, 2, 0, '1 ', cw, cz, 1, I.real('MAG1'), I.real('MAG2'), 2, 'T', 1, 1, 1.0]
        r1 = [I.real('R12'), I.real('X12'), I.real('SBASE12')]
        r2 = [I.real('WINDV1'), I.real('NOMV1'), I.real('ANG1'), I.real('RATA'), I.real('RATB'), I.real('RATC')] + [0] * 10
        r3 = [I.real('WINDV2'), I.real('NOMV2')]
        I.assume(LT(0, r1[2])); I.assume(LT(0, r2[0])); I.assume(LT(0, r3[0])); I.assume(LE(0, r2[1])); I.assume(LE(0, r3[1]))
        if cw in (1, 3):
            I.assume(EQ(r3[0], 1, tol=0.0))        # winding-2 ratio at nominal (the usual data); see `outside the claim`
        out, cnt = _psse('_parse_transf_v33', deg2rad=DEGs)({'transf': [[r0, r1, r2, r3]]}, ss, 2)
        d = out['Line'][0]
        vb1, vb2 = ss._vn[1], ss._vn[2]
        vn1 = ITE(EQ(r2[1], 0, tol=0.0), vb1, r2[1])
        vn2 = ITE(EQ(r3[1], 0, tol=0.0), vb2, r3[1])
        tap = {1: r2[0], 2: (r2[0] / vb1) / (r3[0] / vb2), 3: r2[0] * (vn1 / vb1) / (vn2 / vb2)}[cw]
        return [('two-winding: buses, status, magnetising susceptance', AND(d['bus1'] == 1, d['bus2'] == 2, d['u'] == 1, EQ(d['b'], r0[8], tol=0.0))),
                ('two-winding: r, x and the base they are given on (CZ)', AND(EQ(d['r'], r1[0], tol=0.0), EQ(d['x'], r1[1], tol=0.0),
                                                                               EQ(d['Sn'], mva if cz == 1 else r1[2], tol=0.0))),
                ('two-winding: nominal voltages (bus value when 0)', AND(EQ(d['Vn1'], vn1), EQ(d['Vn2'], vn2))),
                ('two-winding: off-nominal ratio for the winding code (CW)', EQ(d['tap'], tap)),
                ('two-winding: phase shift ANG1 in radians', EQ(d['phi'], r2[2] * DEGs))]
    return h


def h_psse_transf3(I):
    mva = I.real('SBASE'); I.assume(LT(0, mva))
    ss = PsseSys(I, [1, 2, 3], mva)
    DEGs, _ = angle_units(I)
    r0 = [1, 2, 3, '1 ', 1, 1, 1, I.real('MAG1'), I.real('MAG2'), 2, 'T', 1, 1, 1.0]
    r1 = [I.real(n) for n in ('R12', 'X12', 'S12', 'R23', 'X23', 'S23', 'R31', 'X31', 'S31', 'VMSTAR', 'ANSTAR')]
    w = [[I.real(f'WINDV{i}'), I.real(f'NOMV{i}'), I.real(f'ANG{i}')] + [0] * 13 for i in (1, 2, 3)]
    out, cnt = _psse('_parse_transf_v33', deg2rad=DEGs)({'transf': [[r0, r1] + w]}, ss, 3)
    lines, buses = out['Line'], out['Bus']
    res = [('three-winding: one star bus and three branches', len(buses) == 1 and len(lines) == 3)]
    if len(buses) == 1 and len(lines) == 3:
        star = buses[0]['idx']
        res.append(('three-winding: star bus is a new bus with the given star voltage and angle',
                    AND(star not in (1, 2, 3), EQ(buses[0]['v0'], r1[9], tol=0.0), EQ(buses[0]['a0'], r1[10] * DEGs))))
        R = {'12': r1[0], '23': r1[3], '31': r1[6]}
        X = {'12': r1[1], '23': r1[4], '31': r1[7]}
        star_r = [(R['12'] + R['31'] - R['23']) / 2, (R['23'] + R['12'] - R['31']) / 2, (R['31'] + R['23'] - R['12']) / 2]
        star_x = [(X['12'] + X['31'] - X['23']) / 2, (X['23'] + X['12'] - X['31']) / 2, (X['31'] + X['23'] - X['12']) / 2]
        for i in range(3):
            d = lines[i]
            res.append((f'three-winding: branch {i + 1} joins winding bus {i + 1} to the star bus', d['bus1'] == i + 1 and d['bus2'] == star))
            res.append((f'three-winding: branch {i + 1} carries the star-equivalent impedance', AND(EQ(d['r'], star_r[i]), EQ(d['x'], star_x[i]))))
            res.append((f'three-winding: branch {i + 1} has the ratio and phase shift of ITS OWN winding',
                        AND(EQ(d['tap'], w[i][0], tol=0.0), EQ(d['phi'], w[i][2] * DEGs))))
    return res


def job(spec):
    import logging
    logging.getLogger('andes').setLevel(60)
    _DEF.update(defaults())
    kind, arg = spec
    if kind == 'bus':
        return H.run(f'mpc2system bus row [type {arg}]', h_bus_row(arg), region=lambda v, c: c)
    if kind == 'gen':
        return H.run(f'mpc2system gen row [bus type {arg[0]}, status {arg[1]}]', h_gen_row(*arg), region=lambda v, c: c)
    if kind == 'branch':
        return H.run(f'mpc2system branch row [status {arg}]', h_branch_row(arg), region=lambda v, c: c)
    if kind == 's2m':
        return H.run('system2mpc', h_system2mpc, max_paths=4000, region=lambda v, c: c.split(':')[-1].strip() if c.startswith('bus row') else c)
    if kind == 's2mslack':
        return H.run('system2mpc with a PV device on the swing bus', h_system2mpc_pv_on_slack_bus, max_paths=4000, region=lambda v, c: c)
    if kind == 'rt':
        return H.run('mpc -> system -> mpc', h_roundtrip, max_paths=4000, region=lambda v, c: c)
    if kind == 'pbranch':
        return H.run('psse _parse_line_v33', h_psse_branch, region=lambda v, c: c)
    if kind == 'plsg':
        return H.run('psse _parse_load/fshunt/gen_v33', h_psse_load_shunt_gen, region=lambda v, c: c)
    if kind == 'pt2':
        return H.run(f'psse _parse_transf_v33 two-winding [CW={arg[0]},CZ={arg[1]}]', h_psse_transf2(*arg), region=lambda v, c: c)
    if kind == 'pt3':
        return H.run('psse _parse_transf_v33 three-winding', h_psse_transf3, region=lambda v, c: c.split(' branch')[0] if 'branch' in c else c)


def main():
    ck = core.Check(PID, 'other',
                    'PARTIAL. Real mpc2system on symbolic bus/gen/branch rows (System.add recorded): emitted devices carry MATPOWER semantics '
                    '(p.u. by baseMVA, radians, impedances reproduced on the system base, ratio 0 => tap 1, shift on every branch, status, bus '
                    'type => slack/PV, non-zero demand/shunt => load/shunt); real system2mpc on stub systems with symbolic values: bus rows hold '
                    'the sum of the in-service loads/shunts of a bus; round trip identity on supported columns.')
    import andes.io.matpower as MP
    import andes.io.psse as PS
    ck.encodes(MP.mpc2system, MP.system2mpc, MP._get_bus_id_caller, PS._parse_line_v33, PS._parse_load_v33, PS._parse_fshunt_v33,
               PS._parse_gen_v33, PS._parse_transf_v33)
    ck.bound(rows='one record of each type per query; 2 buses / 3 loads / 2 shunts in system2mpc', values='all reals, bases > 0')
    ck.stub('System.add -> recorder; Bus look-ups served from the recorded buses', 'numpy.zeros allocates object arrays in exploration (system2mpc)',
            'bus-id mapping is the identity (integer indices)')
    ck.assume('device values are converted to the system base by the textbook ratio (C11)', 'deg2rad and rad2deg are exact inverses (their binary64 values differ from that by rounding only)')
    ck.out('reading/writing xlsx, json, raw and dyr FILES (pandas, openpyxl, text->float, yaml) -- not encodable',
           'PSS/E: winding-2 off-nominal ratio for CW = 1/3 (assumed 1), impedance code CZ = 3, admittance code CM = 2, switched shunts, dyr files',
           'area/zone columns (documented as unsupported by system2mpc)')
    jobs = [('pbranch', 0), ('plsg', 0), ('pt3', 0)] + [('pt2', (cw, cz)) for cw in (1, 2, 3) for cz in (1, 2)] + [('bus', t) for t in (1, 3)] + [('gen', (t, s)) for t in (2, 3) for s in (1, 0)] + [('branch', s) for s in (1, 0)] + [('s2m', 0), ('s2mslack', 0), ('rt', 0)]
    ck.merge(core.pmap(job, jobs))
    ck.sample({'branch row': '[1, 2, r, x, b, rateA, rateB, rateC, ratio, angle, status, ...] with symbolic numbers'})
    ck.finish()


if __name__ == '__main__':
    core.run_main(main)
