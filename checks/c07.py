r"""
C07  Simulated trajectories agree with an independent reference solution  (partial: model identity).

What a solver can decide of this property is the part no trajectory comparison settles: that
the differential-algebraic system the simulator integrates for the single-machine benchmark IS
the textbook classical model -- for every inertia, damping, reactance, armature resistance,
loading, line parameter and line status, not for the six stored cases.

The benchmark is built through the public API (infinite bus = Slack, one or two parallel Lines,
one of them switched by a Toggle, a GENCLS replacing the PV at the machine bus), the power flow
and TDS.init run numerically, then states, algebraic variables and all system-base parameters
become symbols and the REAL TDS.fg_update runs under pysym.  z3 decides:

  A  the closed-form textbook solution of the stator/flux equations (E' on the q axis behind
     ra + jx') annihilates every algebraic row of the machine -- so, the rows being linear in
     the machine's algebraic variables with non-zero determinant ra^2 + x'^2, it is THE solution;
  B  with that solution the two differential rows are  delta' = 2 pi f (omega - 1)  and
     omega' * M = Pm - E' Iq - D (omega - 1), and for ra = 0:  E' Iq = E' V sin(delta-theta)/x';
  C  the machine-bus rows are the network balance of C01's independent polar oracle minus the
     textbook terminal powers (ra = 0:  P = E'V sin(.)/x',  Q = (E'V cos(.) - V^2)/x');
     the infinite-bus rows hold its voltage and angle;
  D  the initial values computed by the real initialiser chain (declared v_str, evaluated by
     the independent parser of eqsmt over complex pairs) make all machine rows zero at the
     power-flow point: the run starts from an equilibrium of the reference model;
  E  switching the second line changes exactly the branch terms of the oracle (line status is
     a symbolic 0/1 in A-C), and the real Toggle flips exactly that status (C06).

Together with C04 (one step of either method is the declared discretisation of f, g) this
gives: what is integrated is the trapezoid / backward-Euler discretisation of the reference
ODE.  NOT decided here (stated in MANIFEST): the limit statement itself -- convergence of the
float trajectory as h -> 0 and the error bound at default settings -- which follows by the
classical convergence theorem, and the matrix-exponential benchmark for stock cases.
"""
import numpy as np
import z3

from vlib import core, pysym, eqsmt, cases, symsys, harness as H
from vlib.harness import AND, OR, NOT, IFF, IMPLIES, EQ, LE, LT
from checks import c01

PID = 'C07'
_SYS = {}


def get_sys(nlines):
    if nlines not in _SYS:
        lines = [dict(bus1=1, bus2=2, idx='L1', x=0.2, r=0.01, b=0.02), dict(bus1=1, bus2=2, idx='L2', x=0.3, r=0.0, b=0.0)][:nlines]
        extra = [('GENCLS', dict(bus=2, gen='G', idx='M', M=6.0, D=1.0, xd1=0.3, ra=0.01))]
        if nlines == 2:
            extra.append(('Toggle', dict(model='Line', dev='L2', t=1.0)))
        ss = cases.build([1, 2], lines=lines, slacks=[dict(bus=1, idx='INF')], pvs=[dict(bus=2, idx='G', p0=0.5)], setup=False, extra=extra)
        ss.setup()
        ss.PFlow.run()
        ss.TDS.config.no_tqdm = 1
        ss.TDS.init()
        _SYS[nlines] = ss
    return _SYS[nlines]


def sinf(x):
    return c01.sinf(x)


def cosf(x):
    return c01.cosf(x)


def h_identity(nlines, ra_zero, status=None):
    def h(I):
        ss = get_sys(nlines)
        models = ss.exist.pflow_tds
        info = symsys.prepare(ss, models, I)
        desc = c01.setup_symbolic(ss, I, dict({'G0_u': 0}, **(status or {})))            # the PV is out of service once the machine has replaced it
        G = ss.GENCLS
        B = ss.Bus
        u = I.real('machine_in_service')
        I.assume(OR(EQ(u, 0, tol=0.0), EQ(u, 1, tol=0.0)))
        M, D, xp, E, tm0, fn = (I.real(n) for n in ('M', 'D', 'x_transient', 'E_internal', 'Pm', 'fn'))
        ra = I.real('ra') if not ra_zero else (pysym.SR(z3.RealVal(0)) if I.symbolic else np.float64(0.0))
        I.assume(LT(0, M)); I.assume(LT(0, xp)); I.assume(LE(0, ra)); I.assume(LT(0, fn))
        for name, val in (('u', u), ('M', M), ('D', D), ('xq', xp), ('ra', ra), ('vf0', E), ('tm0', tm0), ('fn', fn)):
            G.__dict__[name].v = I.arr(val) if not I.symbolic else pysym.oarr([val])
        y, x = ss.dae.y, ss.dae.x
        delta, omega = x[int(G.delta.a[0])], x[int(G.omega.a[0])]
        kb = B.idx2uid(2)
        V, th = y[int(B.v.a[kb])], y[int(B.a.a[kb])]
        # ---- textbook closed form of the machine's algebraic variables
        vd, vq = u * V * sinf(delta - th), u * V * cosf(delta - th)
        den = ra * ra + xp * xp
        Id = u * (xp * (E - vq) - ra * vd) / den
        Iq = u * (ra * (E - vq) + xp * vd) / den
        book = dict(vd=vd, vq=vq, Id=Id, Iq=Iq, psid=u * (ra * Iq + vq), psiq=-u * (ra * Id + vd), te=u * E * Iq, tm=tm0, vf=u * E, XadIfd=u * E,
                    Pe=u * (E * Iq - ra * (Id * Id + Iq * Iq)), Qe=u * (vq * Id - vd * Iq))
        for name, val in book.items():
            y[int(G.__dict__[name].a[0])] = val
        ss.vars_to_models()
        for m in models.values():
            if m.n:
                m.get_inputs(refresh=True)
        ss.Bus.n_islanded_buses = 0
        ss.Bus.islanded_buses = []
        ss.TDS.niter = 0
        ss.TDS.mis = [1.0]
        ss.dae.t = np.array(0.5)
        ss.TDS.fg_update(models)
        f, g = ss.dae.f, ss.dae.g
        out = []
        for name in book:
            out.append((f'A: the textbook value of {name} annihilates its algebraic row', EQ(g[int(G.__dict__[name].a[0])], 0, tol=1e-9)))
        out.append(("B: delta' = 2 pi f (omega - 1)", EQ(f[int(G.delta.a[0])], u * (2 * np.pi) * fn * (omega - 1), tol=1e-9)))
        out.append(("B: M omega' = Pm - E' Iq - D (omega - 1)", EQ(f[int(G.omega.a[0])], u * (tm0 - E * Iq - D * (omega - 1)), tol=1e-9)))
        if ra_zero:
            s, c = sinf(delta - th), cosf(delta - th)
            out.append(("B (ra = 0): the accelerating power is Pm - E'V sin(delta - theta)/x' - D (omega - 1)",
                        EQ(f[int(G.omega.a[0])], u * (tm0 - E * V * s / xp - D * (omega - 1)), tol=1e-9)))
        # ---- bus rows: network part from the independent polar oracle of C01
        P, Q = c01.oracle(ss, desc, info['y'])
        Pt = book['Pe']
        Qt = book['Qe']
        out.append(('C: active-power row of the machine bus = network balance - terminal power of the classical machine',
                    EQ(g[int(B.a.a[kb])], P[2] - Pt, tol=1e-7)))
        out.append(('C: reactive-power row of the machine bus = network balance - terminal reactive power of the classical machine',
                    EQ(g[int(B.v.a[kb])], Q[2] - Qt, tol=1e-7)))
        if ra_zero:
            out.append(("C (ra = 0): terminal powers are E'V sin(.)/x' and (E'V cos(.) - V^2)/x'",
                        AND(EQ(Pt, u * E * V * s / xp, tol=1e-9), EQ(Qt, u * (E * V * c - V * V) / xp, tol=1e-9))))
        k1 = B.idx2uid(1)
        out.append(('C: rows of the infinite bus are the network balance minus the slack injection',
                    AND(EQ(g[int(B.a.a[k1])], P[1], tol=1e-7), EQ(g[int(B.v.a[k1])], Q[1], tol=1e-7))))
        for d in desc['slacks']:
            out.append(('C: the infinite bus holds its voltage and angle',
                        AND(EQ(g[d['p_addr']], d['u'] * (d['a0'] - y[int(B.a.a[k1])]), tol=1e-9), EQ(g[d['q_addr']], d['u'] * (d['v0'] - y[int(B.v.a[k1])]), tol=1e-9))))
        return out
    return h


def region_of(v, c):
    return c


def job(spec):
    import logging
    logging.getLogger('andes').setLevel(60)
    kind, arg = spec
    if kind == 'id':
        st = arg[2] if len(arg) > 2 else None
        tag = '' if not st else ', line statuses ' + '/'.join(str(st[k]) for k in sorted(st))
        return H.run(f'SMIB TDS.fg_update [{arg[0]} line(s){", ra = 0" if arg[1] else ""}{tag}]', h_identity(arg[0], arg[1], st), timeout_ms=30000, max_paths=64,
                     region=region_of)


def main():
    ck = core.Check(PID, 'other',
                    'PARTIAL (model identity). The real TDS.fg_update of a single-machine-infinite-bus System built through the public '
                    'API, at a fully symbolic point (states, voltages, M, D, x\', ra, E\', Pm, f, every line parameter and status): z3 '
                    'decides that the textbook closed-form stator solution annihilates every algebraic row of the machine, that the '
                    'differential rows are the classical swing equation, and that the bus rows are the independent polar network '
                    'balance minus the classical terminal powers. With C04 this makes the integrated recurrence the discretisation '
                    'of the reference ODE; the convergence statement itself is not decided.')
    import andes.routines.tds as TD
    import andes.system as SY
    import andes.models.synchronous.genbase as GB
    import andes.models.synchronous.gencls as GC
    ck.encodes(TD.TDS.fg_update, SY.System.f_update, SY.System.g_update, SY.System.fg_to_dae, GB.GENBase.__init__, GB.Flux0.__init__, GC.GENCLSModel.__init__)
    ck.bound(system='2 buses, 1-2 parallel lines, 1 GENCLS, Slack as infinite bus', values='all reals (M, x\' > 0, ra >= 0, statuses 0/1)')
    ck.assume('network rows equal the textbook polar balance (C01 oracle, re-checked here on the TDS path)',
              'sin/cos uninterpreted with the same arguments on both sides; quotients division-free, denominators != 0',
              'one integration step is the declared discretisation (C04)')
    ck.out('convergence of the float trajectory to the reference as h -> 0 and the error bound at default settings (limit statement; classical theorem, not machine-checked)',
           'matrix-exponential small-signal benchmark for stock cases (exp of a matrix)', 'GENROU-class machines')
    # one line: status symbolic; two parallel lines: the switching patterns of the benchmark (both in, either one out) as separate queries
    jobs = [('id', (1, rz)) for rz in (True, False)]
    jobs += [('id', (2, rz, {'L0_u': a, 'L1_u': b})) for rz in (True, False) for a, b in ((1, 1), (1, 0), (0, 1))]
    ck.merge(core.pmap(job, jobs))
    ck.sample({'point': 'delta, omega, V, theta, M, D, x_transient, ra, E_internal, Pm, fn, L{k}_{r,x,b,g,b1,g1,b2,g2,tap,phi,u}, S0_{a0,v0}'})
    ck.finish()


if __name__ == '__main__':
    core.run_main(main)
