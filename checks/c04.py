r"""
C04  Every accepted simulation step satisfies the implicit integration rule.

The real Trapezoid / BackEuler.calc_q and calc_jac and the real ImplicitIter.step are executed
under pysym: state, derivative, time constants, step size, Jacobian blocks, the Newton
increments returned by the (stubbed) linear solver and the tolerance are symbols.
  * calc_q is the residual of the rule  T(x1-x0) = h/2 (f1+f0)  resp.  = h f1 ;
  * calc_jac is d[q; g_scale*h*g]/d[x; y] block by block (sparse assembly through kvshim);
  * step(): the right-hand side handed to the solver in every iteration is [calc_q; g_scale*h*g]
    with the rows of pegged anti-windup states overwritten by their stored equation value;
    x,y are updated by exactly the returned increment; it returns True only if the last
    increment is within tolerance (or the chatter flag was raised), and if it returns False
    x, y and f are exactly as at entry; a zero step size is refused.
Step-size bounds (never beyond the fixed step nor past the end time) are part of the
inductive time-grid check C06.
"""
import types

import numpy as np
import z3

from vlib import core, pysym, kvshim, harness as H
from vlib.harness import AND, OR, NOT, IFF, IMPLIES, EQ, LE, LT, ITE

PID = 'C04'
NS = types.SimpleNamespace


def h_calc_q(method, n=3):
    def h(I):
        import andes.routines.daeint as DI
        M = getattr(DI, method)
        x, f, T, x0, f0 = (I.arr(*[f'{p}{i}' for i in range(n)]) for p in ('x', 'f', 'T', 'x0_', 'f0_'))
        hh = I.real('h')
        q = M.calc_q(x, f, T, hh, x0, f0)
        out = []
        for i in range(n):
            rule = T[i] * (x[i] - x0[i]) - (hh / 2 * (f[i] + f0[i]) if method == 'Trapezoid' else hh * f[i])
            out.append((f'{method}.calc_q[{i}] is the residual of the integration rule', EQ(q[i], rule)))
        return out
    return h


def h_calc_jac(method, n=2, m=1):
    def h(I):
        import andes.routines.daeint as DI
        M = getattr(DI, method)
        mk = lambda p, r, c: [[I.real(f'{p}{i}{j}') for j in range(c)] for i in range(r)]
        fx, fy, gx, gy = mk('fx', n, n), mk('fy', n, m), mk('gx', m, n), mk('gy', m, m)
        T = [I.real(f'T{i}') for i in range(n)]
        hh, gs = I.real('h'), I.real('g_scale')
        if I.symbolic:
            sp = lambda a, r, c: kvshim.spmatrix([a[i][j] for i in range(r) for j in range(c)], [i for i in range(r) for j in range(c)],
                                                  [j for i in range(r) for j in range(c)], (r, c))
            f = pysym.rebind(M.calc_jac, sparse=kvshim.sparse)
            Teye = kvshim.spdiag(T)
        else:
            import kvxopt
            sp = lambda a, r, c: kvxopt.sparse(kvxopt.matrix(np.array(a, dtype=float).reshape(r, c)))
            f = M.calc_jac
            Teye = kvxopt.spdiag([float(t) for t in T])
        dae = NS(fx=sp(fx, n, n), fy=sp(fy, n, m), gx=sp(gx, m, n), gy=sp(gy, m, m))
        tds = NS(system=NS(dae=dae), Teye=Teye, h=hh)
        gxs, gys = gs * hh * dae.gx, gs * hh * dae.gy
        Ac = f(tds, gxs, gys)
        c = 0.5 if method == 'Trapezoid' else 1.0
        half = (pysym.SR(pysym.ratval('1/2')) if I.symbolic else 0.5) if method == 'Trapezoid' else 1.0
        out = [('Ac has one row/column per state and algebraic variable', tuple(Ac.size) == (n + m, n + m))]
        for i in range(n):
            for j in range(n):
                out.append((f'd q[{i}]/d x[{j}] = T - c*h*fx', EQ(Ac[i, j], (T[i] if i == j else 0.0) - half * hh * fx[i][j])))
            for j in range(m):
                out.append((f'd q[{i}]/d y[{j}] = -c*h*fy', EQ(Ac[i, n + j], -(half * hh * fy[i][j]))))
        for i in range(m):
            for j in range(n):
                out.append((f'd (scaled g[{i}])/d x[{j}] = g_scale*h*gx', EQ(Ac[n + i, j], gs * hh * gx[i][j])))
            for j in range(m):
                out.append((f'd (scaled g[{i}])/d y[{j}] = g_scale*h*gy', EQ(Ac[n + i, n + j], gs * hh * gy[i][j])))
        return out
    return h


class NPStep(pysym.NumpyProxy):
    """numpy for step(): `np.isnan(inc).any()` is a free boolean per iteration (reals have no NaN)"""

    def __init__(self, I):
        self.I = I
        self.k = 0

    def isnan(self, a):
        self.k += 1
        b = self.I.boolean(f'nan_in_iteration_{self.k}')
        return NS(any=lambda: b)


def h_step(method, max_iter, g_scale_on, pegged, n=1, m=1):
    def h(I):
        import andes.routines.daeint as DI
        M = getattr(DI, method)
        npx = NPStep(I)
        log = _Log()
        step = pysym.rebind(DI.ImplicitIter.step, np=npx, matrix=lambda v: v, logger=log, tqdm=NS(write=lambda *a: None))
        x_in = I.arr(*[f'x_in{i}' for i in range(n)])
        y_in = I.arr(*[f'y_in{i}' for i in range(m)])
        f_in = I.arr(*[f'f_in{i}' for i in range(n)])
        T = I.arr(*[f'T{i}' for i in range(n)])
        dae = NS(n=n, m=m, t=I.real('t'), x=x_in.copy(), y=y_in.copy(), f=f_in.copy(), g=I.zeros(m), Tf=T,
                 fx='fx', fy='fy', gx=1.0, gy=1.0, xy_name=['x'] * n + ['y'] * m)
        hh, tol = I.real('h'), I.real('tol')
        I.assume(LT(0, tol)); I.assume(LT(0, dae.t))
        gs = I.real('g_scale') if g_scale_on else 0.0
        if g_scale_on:
            I.assume(LT(0, gs))
        it = [0]
        sent, fg_seen = [], []

        def fg_update(models=None):
            it[0] += 1
            dae.f = I.arr(*[f'f_it{it[0]}_{i}' for i in range(n)])
            dae.g = I.arr(*[f'g_it{it[0]}_{i}' for i in range(m)])
            fg_seen.append((dae.x.copy(), dae.y.copy(), dae.f.copy(), dae.g.copy()))

        def solve(A, b):
            sent.append([v for v in b])
            return I.arr(*[f'inc_it{it[0]}_{i}' for i in range(n + m)])
        aw = []
        if pegged:
            aw = [NS(x_set=[(np.array([0]), np.array([0.0]), 0)])]        # state 0 pegged, stored equation value 0
        system = NS(dae=dae, exist=NS(pflow_tds={}), antiwindups=aw, j_update=lambda **k: None, vars_to_models=lambda: None,
                    options={'verbose': 20})
        cfg = NS(honest=0, g_scale=gs, linsolve=0, reset_tiny=0, tol=tol, max_iter=max_iter, chatter_iter=100)
        tds = NS(system=system, h=hh, config=cfg, x0=I.zeros(n), y0=I.zeros(m), f0=I.zeros(n), qg=I.zeros(n + m),
                 custom_event=False, last_converged=True, _last_switch_t=-999.0, tol_zero=0.0, chatter=False, busted=False, err_msg='',
                 solver=NS(worker=NS(factorize=False), solve=solve, linsolve=solve), fg_update=fg_update,
                 method=NS(calc_jac=lambda tds_, gxs, gys: 'Ac', calc_q=M.calc_q), Teye='Teye', niter=0, converged=False)
        ret = step(tds)
        out = []
        k = it[0]
        zero_h = EQ(hh, 0, tol=0.0)
        if k == 0:
            out.append(('a zero step size is refused without touching the state',
                        AND(ret is False, zero_h, *[EQ(dae.x[i], x_in[i], tol=0.0) for i in range(n)])))
            return out
        out.append(('integration only with a non-zero step size', NOT(zero_h)))
        half = (pysym.SR(pysym.ratval('1/2')) if I.symbolic else 0.5)
        # ---- what was sent to the solver in every iteration
        for j, b in enumerate(sent):
            xs, ys, fs, gsv = fg_seen[j]
            for i in range(n):
                rule = T[i] * (xs[i] - x_in[i]) - (half * hh * (fs[i] + f_in[i]) if method == 'Trapezoid' else hh * fs[i])
                want = 0.0 if (pegged and i == 0) else rule
                out.append((f'iteration {j + 1}: differential row {i} sent to the solver is the rule residual (pegged rows: stored value)',
                            EQ(b[i], want)))
            for i in range(m):
                want = gs * hh * gsv[i] if g_scale_on else gsv[i]
                out.append((f'iteration {j + 1}: algebraic row {i} sent to the solver is the (scaled) mismatch', EQ(b[n + i], want)))
        last_inc = [I.real(f'inc_it{k}_{i}') if False else None for i in range(n + m)]
        nan_last = False
        if ret:
            incs = [pysym.sym(f'inc_it{k}_{i}') if I.symbolic else I.real(f'inc_it{k}_{i}') for i in range(n + m)]
            within = AND(*[AND(LE(v, tol), LE(-tol, v)) for v in incs])
            out.append(('accepted => every component of the last Newton increment is within the tolerance (or chatter flagged)',
                        OR(within, tds.chatter is True)))
            out.append(('accepted => not busted', tds.busted is False))
            # the accepted point is the iterate the last residual was evaluated at, minus the last increment
            xs, ys, _, _ = fg_seen[-1]
            out.append(('accepted point = last iterate - last increment',
                        AND(*[EQ(dae.x[i], xs[i] - incs[i]) for i in range(n)], *[EQ(dae.y[i], ys[i] - incs[n + i]) for i in range(m)])))
        else:
            out.append(('rejected => x, y, f exactly as at entry',
                        AND(*[EQ(dae.x[i], x_in[i], tol=0.0) for i in range(n)], *[EQ(dae.y[i], y_in[i], tol=0.0) for i in range(m)],
                            *[EQ(dae.f[i], f_in[i], tol=0.0) for i in range(n)])))
            out.append(('rejected => convergence flags are false', tds.converged is False and tds.last_converged is False))
        out.append(('at most max_iter + 1 iterations', k <= max_iter + 1))
        return out
    return h


class _Log:
    def debug(self, *a, **k): pass
    info = warning = error = debug


def job(spec):
    kind, arg = spec
    if kind == 'q':
        return H.run(f'{arg}.calc_q', h_calc_q(arg), region=lambda v, c: c.split('[')[0])
    if kind == 'jac':
        return H.run(f'{arg}.calc_jac', h_calc_jac(arg), region=lambda v, c: c.split('[')[0])
    if kind == 'step':
        return H.run(f'ImplicitIter.step[{arg[0]},max_iter={arg[1]},g_scale={"on" if arg[2] else "off"},pegged={arg[3]}]', h_step(*arg),
                     timeout_ms=20000, max_paths=8000, region=lambda v, c: c.split(':')[-1].strip() if c.startswith('iteration') else c)


def main():
    ck = core.Check(PID, 'other',
                    'Real calc_q / calc_jac of both integration methods and the real ImplicitIter.step executed on symbols: the rule '
                    'residual, its block Jacobian, the right-hand side sent to the linear solver in every iteration (anti-windup rows '
                    'overwritten), the update by exactly the returned increment, accept => last increment within tolerance, reject => '
                    'state exactly restored, zero step refused.')
    import andes.routines.daeint as DI
    ck.encodes(DI.ImplicitIter.step, DI.Trapezoid.calc_q, DI.Trapezoid.calc_jac, DI.BackEuler.calc_q, DI.BackEuler.calc_jac)
    thorough = core.tier() == 'thorough'
    ck.bound(states='n <= 3 (calc_q), n = 2, m = 1 (calc_jac), n = m = 1 (step)', newton_iterations='max_iter in {1, 2}' + (' and 3' if thorough else ''))
    ck.stub('fg_update -> fresh symbols for f and g per iteration', 'solver.solve -> arbitrary increment per iteration (recorded right-hand side)',
            'np.isnan(inc).any() -> free boolean per iteration', 'j_update, vars_to_models, logging -> no-ops',
            'kvxopt sparse -> kvshim in calc_jac exploration')
    ck.assume('floats abstracted as reals; the linear solver returns an arbitrary vector (its correctness is C16)')
    ck.out('order of convergence as h -> 0 (a limit)', 'step-size selection: see C06')
    jobs = [('q', 'Trapezoid'), ('q', 'BackEuler'), ('jac', 'Trapezoid'), ('jac', 'BackEuler')]
    for meth in ('Trapezoid', 'BackEuler'):
        for mi in ((1, 2, 3) if thorough else (1, 2)):
            for gs in (True, False):
                for pg in (False, True):
                    if not thorough and meth == 'BackEuler' and (pg or not gs):
                        continue
                    jobs.append(('step', (meth, mi, gs, pg)))
    ck.merge(core.pmap(job, jobs))
    ck.sample({'step': 'x_in, y_in, f_in, T, h, tol, g_scale, per-iteration f, g, inc, nan flags symbolic'})
    ck.finish()


if __name__ == '__main__':
    core.run_main(main)
