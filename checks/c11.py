r"""
C11  Per-unit conversion and parameter alteration keep both value bases consistent.

(1) The real System.calc_pu_coeff runs under pysym on models of every connection shape
(shunt-connected with/without own Sn/Vn, series-connected, dc-connected) whose ratings and bus
bases are symbols: z3 decides that every coefficient is the textbook ratio of device base to
system/bus base and that each flagged parameter receives the coefficient of its own flag with
v = vin * k.
(2) Real Model.alter / Model.set / GroupBase.alter on real model objects of a real System with
symbolic values and symbolic conversion factors, sequences of <= 3 calls: after every `alter`
v = vin * k for the addressed device (both `attr` modes), the input-base value is the one a case
export (`as_dict(vin=True)`) writes, other devices are untouched; a time constant of a
differential equation reaches dae.Tf and the mass matrix; System._p_restore gives v = vin.
(3) Structural: for every parameter of every shipped model, the coefficient selected by
calc_pu_coeff is the one of its declared flag (executed on the real System with tagged bases).
"""
import itertools
import types

import numpy as np
import z3

from vlib import core, pysym, kvshim, harness as H
from vlib.harness import AND, OR, NOT, IFF, IMPLIES, EQ, LE, LT

PID = 'C11'
NS = types.SimpleNamespace
FLAGS = ['voltage', 'power', 'ipower', 'current', 'z', 'y', 'dc_voltage', 'dc_current', 'r', 'g']


class FakeModel:
    """a model as calc_pu_coeff sees it: rating parameters, connection fields and real NumParam objects"""

    def __init__(self, I, tag, shape, own_bases):
        from andes.core.param import NumParam
        self.params = {}
        self.vin0 = {}
        for fl in FLAGS:
            p = NumParam(**{fl: True})
            p.name = f'p_{fl}'
            arr = I.arr(f'{tag}_{fl}_in')
            p.v, p.vin = arr.copy(), arr.copy()
            p.pu_coeff = I.to_obj(np.ones(1))
            self.params[fl] = p
            self.vin0[fl] = arr[0]
        plain = NumParam()
        plain.name = 'plain'
        arr = I.arr(f'{tag}_plain_in')
        plain.v, plain.vin, plain.pu_coeff = arr.copy(), arr.copy(), I.to_obj(np.ones(1))
        self.params['plain'] = plain
        self.vin0['plain'] = arr[0]
        self.shape = shape
        if own_bases:
            self.Sn = NS(v=I.arr(f'{tag}_Sn'))
        if shape == 'shunt':
            self.bus = NS(v=['B'])
            if own_bases:
                self.Vn = NS(v=I.arr(f'{tag}_Vn'))
        elif shape == 'series':
            self.bus1 = NS(v=['B'])
            self.bus2 = NS(v=['B2'])
            if own_bases:
                self.Vn1 = NS(v=I.arr(f'{tag}_Vn1'))
                self.Vn2 = NS(v=I.arr(f'{tag}_Vn2'))
        elif shape == 'dc':
            self.node = NS(v=['N'])
            if own_bases:
                self.Vdcn = NS(v=I.arr(f'{tag}_Vdcn'))
                self.Idcn = NS(v=I.arr(f'{tag}_Idcn'))
        elif shape == 'dc2':
            self.node1 = NS(v=['N'])
            self.node2 = NS(v=['N2'])
            if own_bases:
                self.Vdcn1 = NS(v=I.arr(f'{tag}_Vdcn1'))
                self.Idcn = NS(v=I.arr(f'{tag}_Idcn'))

    def find_param(self, prop):
        return {k: p for k, p in self.params.items() if p.get_property(prop) is True}


def h_calc_pu(shape, own):
    def h(I):
        import andes.system as SY
        Sb = I.real('Sb')
        Vb = I.arr('Vb')
        Vdcb = I.arr('Vdcb')
        m = FakeModel(I, 'm', shape, own)
        fake = NS(config=NS(mva=Sb), models={'M': m},
                  Bus=NS(get=lambda src, idx, attr: Vb), Node=NS(get=lambda src, idx, attr: Vdcb))
        pos = [Sb, Vb[0], Vdcb[0]]
        for nm in ('Sn', 'Vn', 'Vn1', 'Vdcn', 'Vdcn1', 'Idcn'):
            if hasattr(m, nm):
                pos.append(getattr(m, nm).v[0])
        for v in pos:
            I.assume(LT(0, v))
        SY.System.calc_pu_coeff(fake)
        # ---- textbook ratios
        Sn = m.Sn.v[0] if own else Sb
        if shape == 'shunt':
            vb, vn = Vb[0], (m.Vn.v[0] if own else Vb[0])
        elif shape == 'series':
            vb, vn = Vb[0], (m.Vn1.v[0] if own else Vb[0])
        else:
            vb, vn = 1.0, 1.0
        if shape == 'dc':
            vdb, vdn = Vdcb[0], (m.Vdcn.v[0] if own else Vdcb[0])
            idn = m.Idcn.v[0] if own else Sb / vdb
        elif shape == 'dc2':
            vdb, vdn = Vdcb[0], (m.Vdcn1.v[0] if own else Vdcb[0])
            idn = m.Idcn.v[0] if own else Sb / vdb
        else:
            vdb, vdn, idn = 1.0, 1.0, 1.0
        idb = Sb / vdb
        zn, zb = vn * vn / Sn, vb * vb / Sb
        want = {'voltage': vn / vb, 'power': Sn / Sb, 'ipower': Sb / Sn, 'current': (Sn / vn) / (Sb / vb), 'z': zn / zb,
                'y': zb / zn, 'dc_voltage': vdn / vdb, 'dc_current': idn / idb, 'r': (vdn / idn) / (vdb / idb),
                'g': (vdb / idb) / (vdn / idn)}
        out = []
        for fl in FLAGS:
            k = m.coeffs[fl]
            k = k[0] if isinstance(k, np.ndarray) else k
            out.append((f'coefficient for {fl} quantities is the textbook ratio', EQ(k, want[fl])))
            p = m.params[fl]
            out.append((f'{fl}-flagged parameter: system value = input value * its own coefficient',
                        AND(EQ(p.v[0], m.vin0[fl] * want[fl]), EQ(p.pu_coeff[0], want[fl]), EQ(p.vin[0], m.vin0[fl], tol=0.0))))
        p = m.params['plain']
        out.append(('unflagged parameter is not converted', AND(EQ(p.v[0], m.vin0['plain'], tol=0.0), EQ(p.pu_coeff[0], 1.0, tol=0.0))))
        b = m.bases
        out.append(('stored bases are the ones used', AND(EQ(b['Sb'], Sb, tol=0.0), EQ(b['Sn'] if not isinstance(b['Sn'], np.ndarray) else b['Sn'][0], Sn, tol=0.0))))
        return out
    return h


_SYS = {}


def get_sys():
    if 'a' not in _SYS:
        from vlib import cases
        ss = cases.build([1, 2], lines=[dict(bus1=1, bus2=2, idx='L1', Sn=50.0, Vn1=115.0), dict(bus1=1, bus2=2, idx='L2')],
                         slacks=[dict(bus=1, idx='S1')],
                         shunts=[dict(bus=2, idx='C1', Sn=40.0, Vn=100.0, b=0.1), dict(bus=2, idx='C2', b=0.2)],
                         pqs=[dict(bus=2, idx='D1', p0=0.2, q0=0.1)], setup=False,
                         extra=[('PV', dict(bus=2, idx='G2', Vn=110.0, p0=0.1, v0=1.0)),
                                ('GENCLS', dict(bus=2, gen='G2', idx='GEN', Sn=80.0, Vn=110.0, M=6.0, D=1.0, xd1=0.3))])
        ss.setup()
        ss.PFlow.run()
        ss.TDS.config.no_tqdm = 1
        ss.TDS.init()
        _SYS['a'] = ss
        _SYS['Tf0'] = np.array(ss.dae.Tf, dtype=float)
    return _SYS['a']


OPS = ['alter_v', 'alter_vin', 'group_alter_v']


def h_alter_seq(seq):
    """sequence of alteration calls on Shunt.b (y-flagged) of two devices in one group"""
    def h(I):
        ss = get_sys()
        m = ss.Shunt
        p = m.b
        k = I.arr('k0', 'k1')
        for v in k:
            I.assume(LT(0, v))
        vin0 = I.arr('vin0', 'vin1')
        p.pu_coeff = k.copy()
        p.vin = vin0.copy()
        p.v = vin0 * k
        m.get_inputs(refresh=True)
        expect_vin = [vin0[0], vin0[1]]
        out = []
        for step, (op, dev) in enumerate(seq):
            val = I.real(f'value{step}')
            idx = m.idx.v[dev]
            if op == 'alter_v':
                m.alter('b', idx, val)
                expect_vin[dev] = val
            elif op == 'alter_vin':
                m.alter('b', idx, val, attr='vin')
                expect_vin[dev] = val / k[dev]
            elif op == 'group_alter_v':
                ss.StaticShunt.alter('b', [idx], [val])
                expect_vin[dev] = val
            for d in range(2):
                out.append((f'after call {step} ({op} on device {dev}): device {d} has v = vin * k and the expected input value',
                            AND(EQ(p.v[d], p.vin[d] * k[d]), EQ(p.vin[d], expect_vin[d]))))
        exported = m.as_dict(vin=True)['b']
        for d in range(2):
            out.append((f'case export writes the altered input-base value of device {d}', EQ(exported[d], expect_vin[d])))
        # the array the residual evaluation reads is the altered one (same object)
        out.append(('the next residual evaluation reads the altered array', m._input['b'] is p.v))
        ss._p_restore()
        for d in range(2):
            out.append((f'restore gives v = vin for device {d}', EQ(p.v[d], p.vin[d], tol=0.0)))
        return out
    return h


def h_tconst(op):
    def h(I):
        ss = get_sys()
        m = ss.GENCLS
        p = m.M
        kk = I.real('k')
        I.assume(LT(0, kk))
        p.pu_coeff = I.arr('k')
        vin0 = I.real('M_in0')
        p.vin = I.arr('M_in0')
        p.v = p.vin * p.pu_coeff
        a = int(m.omega.a[0])
        ss.dae.Tf = I.to_obj(_SYS['Tf0'].copy())
        if I.symbolic:
            ss.TDS.Teye = kvshim.spdiag(list(ss.dae.Tf))
        else:
            from kvxopt import spdiag
            ss.TDS.Teye = spdiag(ss.dae.Tf.tolist())
        tf_before = ss.dae.Tf.copy()
        val = I.real('newM')
        if op == 'alter_v':
            m.alter('M', 'GEN', val)
            want = val * kk
        elif op == 'alter_vin':
            m.alter('M', 'GEN', val, attr='vin')
            want = val
        elif op == 'group_set_v':
            ss.SynGen.set('M', ['GEN'], 'v', [val])
            want = val
        else:
            m.set('M', 'GEN', 'v', val)
            want = val
        out = [('system-base value of the time constant', EQ(p.v[0], want)),
               ('dae.Tf of the swing equation follows the altered time constant', EQ(ss.dae.Tf[a], want)),
               ('mass matrix diagonal follows the altered time constant', EQ(ss.TDS.Teye[a, a], want)),
               ('other time constants untouched', AND(*[EQ(ss.dae.Tf[i], tf_before[i], tol=0.0) for i in range(ss.dae.n) if i != a]))]
        return out
    return h


def get_sys_shared():
    """a model in which ONE parameter is the time constant of TWO states (REGCA1.Tg: S0_y and S1_y)"""
    if 'sh' not in _SYS:
        from vlib import cases
        ss = cases.build([1, 2], lines=[dict(bus1=1, bus2=2, idx='L1')], slacks=[dict(bus=1, idx='S1')],
                         pqs=[dict(bus=2, idx='D1', p0=0.2, q0=0.1)], setup=False,
                         extra=[('PV', dict(bus=2, idx='G2', Vn=110.0, p0=0.1, v0=1.0)), ('REGCA1', dict(bus=2, gen='G2', idx='R1', Sn=80.0))])
        ss.setup()
        ss.PFlow.run()
        ss.TDS.config.no_tqdm = 1
        ss.TDS.init()
        _SYS['sh'] = ss
        _SYS['Tf0sh'] = np.array(ss.dae.Tf, dtype=float)
    return _SYS['sh']


def h_tconst_shared(op):
    def h(I):
        ss = get_sys_shared()
        m = ss.REGCA1
        p = m.Tg
        addrs = [int(v.a[0]) for v in m.states.values() if v.t_const is p]
        p.pu_coeff = I.to_obj(np.ones(1))
        p.vin = I.arr('T_in0')
        p.v = p.vin * p.pu_coeff
        ss.dae.Tf = I.to_obj(_SYS['Tf0sh'].copy())
        if I.symbolic:
            ss.TDS.Teye = kvshim.spdiag(list(ss.dae.Tf))
        else:
            from kvxopt import spdiag
            ss.TDS.Teye = spdiag(ss.dae.Tf.tolist())
        tf_before = ss.dae.Tf.copy()
        val = I.real('newT')
        if op == 'alter_v':
            m.alter('Tg', 'R1', val)
        else:
            m.set('Tg', 'R1', 'v', val)
        out = [('the parameter is the time constant of two states of this model', len(addrs) == 2)]
        for a in addrs:
            out.append((f'dae.Tf of every state that uses the altered time constant follows it (state at address {a})', EQ(ss.dae.Tf[a], val)))
            out.append((f'mass matrix diagonal of every such state follows it (address {a})', EQ(ss.TDS.Teye[a, a], val)))
        out.append(('other time constants untouched', AND(*[EQ(ss.dae.Tf[i], tf_before[i], tol=0.0) for i in range(ss.dae.n) if i not in addrs])))
        return out
    return h


def structural():
    """every flagged parameter of every shipped model gets the coefficient of its own flag"""
    res = []
    ss = core.new_system()
    import andes.system as SY
    n_params = 0
    bad = []
    for mn, m in ss.models.items():
        for pn, p in m.params.items():
            if not hasattr(p, 'get_property'):
                continue
            flags = [fl for fl in FLAGS if p.get_property(fl) is True]
            if not flags:
                continue
            n_params += 1
            found = [fl for fl in FLAGS if pn in m.find_param(fl)]
            if found != flags or len(flags) != 1:
                bad.append((mn, pn, flags, found))
    res.append(dict(harness='structural', name=f'{n_params} flagged parameters of {len(ss.models)} models are each selected by exactly their own flag',
                    status='unsat' if not bad else 'sat-replayed', nontrivial=False))
    for mn, pn, flags, found in bad[:5]:
        res.append(dict(kind='violation', harness='structural', region=f'{mn}.{pn}',
                        desc=f'{mn}.{pn} declares flags {flags} but calc_pu_coeff selects it for {found}', replay=dict(model=mn, param=pn)))
    res.append(dict(kind='sample', obj={'flagged_parameters': n_params}))
    return res


# independent reading of the stock models' documentation: which physical kind every rated parameter is (device base -> system base)
STOCK_KIND = {
    'Line': dict(r='z', x='z', b='y', g='y', b1='y', g1='y', b2='y', g2='y', tap=None, phi=None),
    'Shunt': dict(g='y', b='y'),
    'GENCLS': dict(M='power', D='power', ra='z', xl='z', xd1='z'),
    'GENROU': dict(M='power', D='power', ra='z', xl='z', xd1='z', xd='z', xq='z', xd2='z', xq1='z', xq2='z', Td10=None, Tq10=None),
    'PQ': dict(p0=None, q0=None), 'PV': dict(p0=None, v0=None), 'Slack': dict(v0=None, a0=None),
}


def stock_sys():
    if 'stock' not in _SYS:
        from vlib import cases as CS
        ss = CS.build([1, 2], lines=[dict(bus1=1, bus2=2, idx='L', Sn=80.0, Vn1=115.0, Vn2=21.0, r=0.01, x=0.1, b=0.02, b2=0.01, g1=0.002)],
                      slacks=[dict(bus=1, idx='S', Sn=200.0, Vn=110.0)], pvs=[dict(bus=2, idx='G', p0=0.3, Sn=50.0, Vn=20.0)],
                      pqs=[dict(bus=2, idx='D', p0=0.2, q0=0.05)], shunts=[dict(bus=2, idx='C', Sn=40.0, Vn=22.0, b=0.1)], setup=False,
                      extra=[('GENCLS', dict(bus=1, gen='S', idx='M1', Sn=200.0, Vn=110.0, M=6.0, D=1.0, xd1=0.3)),
                             ('GENROU', dict(bus=2, gen='G', idx='M2', Sn=50.0, Vn=21.0))])
        ss.setup()
        _SYS['stock'] = ss
    return _SYS['stock']


def h_stock(mname):
    """real calc_pu_coeff on a real System: every rated parameter of the stock model is converted as its physical kind demands"""
    def h(I):
        import andes.system as SY
        ss = stock_sys()
        m = ss.models[mname]
        Sb = I.real('Sb')
        I.assume(LT(0, Sb))
        old_mva = ss.config.mva
        ss.config.mva = Sb
        Vb = I.arr('Vb_bus1', 'Vb_bus2')
        ss.Bus.Vn.v = Vb
        for v in Vb:
            I.assume(LT(0, v))
        saved = {}
        vin = {}
        for nm in ('Sn', 'Vn', 'Vn1', 'Vn2'):
            if nm in m.params:
                p = m.params[nm]
                saved[nm] = (p.v, p.vin)
                p.v = I.arr(f'{mname}_{nm}')
                I.assume(LT(0, p.v[0]))
        for pn in STOCK_KIND[mname]:
            p = m.params[pn]
            saved[pn] = (p.v, p.vin)
            arr = I.arr(f'{mname}_{pn}_in')
            p.v, p.vin = arr.copy(), arr.copy()
            p.pu_coeff = I.to_obj(np.ones(1))
            vin[pn] = arr[0]
        others = {k: mm for k, mm in ss.models.items() if mm is not m}
        try:
            SY.System.calc_pu_coeff(NS(config=ss.config, models={mname: m}, Bus=ss.Bus, Node=getattr(ss, 'Node', None)))
            Sn = m.params['Sn'].v[0] if 'Sn' in m.params else Sb
            if 'bus1' in m.params:
                vb, vn = Vb[ss.Bus.idx2uid(m.bus1.v[0])], m.params['Vn1'].v[0]
            elif 'bus' in m.params:
                vb = Vb[ss.Bus.idx2uid(m.bus.v[0])]
                vn = m.params['Vn'].v[0] if 'Vn' in m.params else vb
            else:
                vb, vn = 1.0, 1.0
            zn, zb = vn * vn / Sn, vb * vb / Sb
            factor = {'z': zn / zb, 'y': zb / zn, 'power': Sn / Sb, 'ipower': Sb / Sn, 'current': (Sn / vn) / (Sb / vb), 'voltage': vn / vb, None: 1.0}
            out = []
            for pn, kind in STOCK_KIND[mname].items():
                p = m.params[pn]
                out.append((f'{mname}.{pn} is converted as a {kind or "base-free"} quantity', EQ(p.v[0], vin[pn] * factor[kind])))
        finally:
            ss.config.mva = old_mva
            for pn, (v, vi) in saved.items():
                m.params[pn].v, m.params[pn].vin = v, vi
        return out
    return h


def h_param_add(non_zero, non_negative, non_positive):
    """real NumParam.add on a symbolic input value: a value inside the declared domain is the value the model uses"""
    def h(I):
        import math
        from andes.core.param import NumParam
        import andes.core.param as PA
        dflt = 0.25 if not non_positive else -0.25

        class M:
            @staticmethod
            def isnan(x):
                return False if isinstance(x, pysym.SR) else math.isnan(x)
        add = pysym.rebind(PA.NumParam.add, float=(float, pysym.SR), math=M, logger=NS(warning=lambda *a, **k: None)) if I.symbolic else \
            pysym.rebind(PA.NumParam.add, logger=NS(warning=lambda *a, **k: None))
        p = NumParam(default=dflt, non_zero=non_zero, non_negative=non_negative, non_positive=non_positive)
        p.name, p.owner = 'p', NS(class_name='X')
        val = I.real('value')
        add(p, val)
        stored = p.v[-1]
        legal = AND(OR(not non_zero, NOT(EQ(val, 0, tol=0.0))), OR(not non_negative, LE(0, val)), OR(not non_positive, LE(val, 0)))
        return [('a value inside the declared domain is stored unchanged', IMPLIES(legal, EQ(stored, val, tol=0.0))),
                ('a value outside the declared domain is replaced by the default', IMPLIES(NOT(legal), EQ(stored, dflt, tol=0.0)))]
    return h


def h_json_after_alter(I):
    """two exports through the real JSON writer with an alteration in between: the second one holds the altered input value"""
    import andes.io.json as JS
    ss = get_sys()
    m = ss.Shunt
    p = m.b
    k = I.arr('k0', 'k1')
    for v in k:
        I.assume(LT(0, v))
    vin0 = I.arr('vin0', 'vin1')
    p.pu_coeff, p.vin, p.v = k.copy(), vin0.copy(), vin0 * k
    m.get_inputs(refresh=True)
    m.cache.refresh()
    dump = pysym.rebind(JS._dump_system, json=NS(dumps=lambda out, indent=2: out))
    first = dump(ss, True)
    val = I.real('value')
    m.alter('b', m.idx.v[0], val)
    second = dump(ss, True)
    rows1, rows2 = first['Shunt'], second['Shunt']
    return [('the first export holds the input-base values', AND(EQ(rows1[0]['b'], vin0[0], tol=0.0), EQ(rows1[1]['b'], vin0[1], tol=0.0))),
            ('an export after an alteration holds the altered input-base value', EQ(rows2[0]['b'], val, tol=0.0)),
            ('... and leaves the other device alone', EQ(rows2[1]['b'], vin0[1], tol=0.0))]


def h_export(I):
    """ModelData.as_dict on parameters with and without an output converter, hidden and None-input parameters"""
    from collections import OrderedDict
    from andes.core.model.modeldata import ModelData
    k = I.arr('k0', 'k1')
    vin = I.arr('vin0', 'vin1')
    conv = lambda item: item * 3 + 1                                   # noqa: E731  (stands for list_oconv & co.)
    mk = lambda **kw: types.SimpleNamespace(**kw)                      # noqa: E731
    md = mk(n=2, params=OrderedDict([
        ('plain', mk(export=True, v=vin * k, vin=vin.copy(), oconvert=None)),
        ('conv', mk(export=True, v=vin * k, vin=vin.copy(), oconvert=conv)),
        ('hidden', mk(export=False, v=vin * k, vin=vin.copy(), oconvert=None)),
        ('novin', mk(export=True, v=vin * k, vin=None, oconvert=None))]))
    a = ModelData.as_dict(md, vin=True)
    b = ModelData.as_dict(md, vin=False)
    out = [('export: uid column and hidden parameters', list(a['uid']) == [0, 1] and 'hidden' not in a and 'hidden' not in b)]
    for d in range(2):
        out.append((f'export(vin=True) writes the input-base value of device {d}, converted when the parameter has an output converter',
                    AND(EQ(a['plain'][d], vin[d], tol=0.0), EQ(a['conv'][d], conv(vin[d])), EQ(a['novin'][d], vin[d] * k[d], tol=0.0))))
        out.append((f'export(vin=False) writes the system-base value of device {d}, converted when the parameter has an output converter',
                    AND(EQ(b['plain'][d], vin[d] * k[d], tol=0.0), EQ(b['conv'][d], conv(vin[d] * k[d])))))
    return out


def job(spec):
    kind, arg = spec
    if kind == 'stock':
        return H.run(f'System.calc_pu_coeff on the stock model {arg}', h_stock(arg), timeout_ms=20000, region=lambda v, c: c)
    if kind == 'padd':
        return H.run(f'NumParam.add[non_zero={arg[0]},non_negative={arg[1]},non_positive={arg[2]}]', h_param_add(*arg), region=lambda v, c: c)
    if kind == 'json':
        return H.run('JSON writer before and after Model.alter', h_json_after_alter, region=lambda v, c: c)
    if kind == 'export':
        return H.run('ModelData.as_dict', h_export, region=lambda v, c: c.split(' of device')[0])
    if kind == 'pu':
        return H.run(f'System.calc_pu_coeff[{arg[0]},own bases={arg[1]}]', h_calc_pu(*arg), timeout_ms=20000,
                     region=lambda v, c: c.split(':')[0])
    if kind == 'seq':
        return H.run('alter sequence ' + '>'.join(f'{o}@{d}' for o, d in arg), h_alter_seq(arg), timeout_ms=20000,
                     region=lambda v, c: 'alter sequence: ' + c.split('): ')[-1].split(' of device')[0])
    if kind == 'tcsh':
        return H.run(f'time constant shared by two states via {arg}', h_tconst_shared(arg), timeout_ms=20000, region=lambda v, c: c.split(' (')[0])
    if kind == 'tc':
        return H.run(f'time constant via {arg}', h_tconst(arg), timeout_ms=20000, region=lambda v, c: c)
    if kind == 'struct':
        return structural()


def main():
    ck = core.Check(PID, 'other',
                    'Real System.calc_pu_coeff on models of every connection shape with symbolic ratings and bases: every coefficient '
                    'is the textbook ratio and each flagged parameter gets its own; real Model.alter/set/GroupBase.alter sequences '
                    '(<= 3 calls, symbolic values and factors) keep v = vin*k, export the altered input value, leave other devices '
                    'alone; time constants reach dae.Tf and the mass matrix; restore gives v = vin.')
    import andes.system as SY
    import andes.core.param as PA
    import andes.core.model.model as MM
    import andes.models.group as GR
    import andes.core.model.modeldata as MD
    ck.encodes(PA.NumParam.add, SY.System.calc_pu_coeff, PA.NumParam.set_pu_coeff, PA.NumParam.restore, MM.Model.set, MM.Model.alter, GR.GroupBase.alter,
               GR.GroupBase.set, SY.System._p_restore, MD.ModelData.as_dict, MD.ModelData.find_param)
    thorough = core.tier() == 'thorough'
    ck.bound(bases='all positive reals', sequences='<= 3 alteration calls over 2 devices' if thorough else '<= 2 alteration calls over 2 devices',
             shapes='shunt / series / dc one-node / dc two-node, with and without own ratings')
    ck.stub('kvxopt mass matrix -> kvshim.spdiag in exploration (replays use kvxopt)')
    ck.assume('floats abstracted as reals', 'bases and ratings > 0')
    ck.out('xlsx/json writers (file I/O)', 'parameters with ndim 2')
    jobs = [('pu', (s, o)) for s in ('shunt', 'series', 'dc', 'dc2', 'none') for o in (True, False)]
    L = 3 if thorough else 2
    seqs = []
    for ops in itertools.product(OPS, repeat=L):
        for devs in itertools.product((0, 1), repeat=L):
            seqs.append(tuple(zip(ops, devs)))
    if not thorough:
        seqs = [s for i, s in enumerate(seqs) if (i + core.seed()) % 2 == 0]
    jobs += [('seq', s) for s in seqs]
    jobs += [('tc', o) for o in ('alter_v', 'alter_vin', 'set_v', 'group_set_v')] + [('tcsh', o) for o in ('alter_v', 'set_v')] + [('struct', 0), ('export', 0), ('json', 0)] + [('stock', mn) for mn in STOCK_KIND] + [('padd', f) for f in ((0, 0, 0), (1, 0, 0), (0, 1, 0), (0, 0, 1), (1, 1, 0), (1, 0, 1))]
    ck.merge(core.pmap(job, jobs))
    ck.sample({'sequence': 'alter_v@0 > alter_vin@1', 'claim': 'v = vin*k, export = altered vin'})
    ck.finish()


if __name__ == '__main__':
    core.run_main(main)
