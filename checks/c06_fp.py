"""
C06 binary64 lemma (thorough tier): the clipped step  h := u - t ; t := t + h  lands EXACTLY on the
event time u in IEEE-754 double arithmetic (round-to-nearest-even) whenever 0 <= t <= u <= 2t
(the regime every step but the very first ones is in).  Decided by z3's FloatingPoint theory.
The complementary regime (u > 2t) is searched for a witness of inexact landing; it is reported
descriptively (evidence), because whether a real run reaches such a pair depends on the step
history, which is outside this query.
"""
import time

import z3


def run(timeout_ms=600000):
    F = z3.Float64()
    rm = z3.RNE()
    t, u = z3.FPs('t u', F)
    h = z3.fpSub(rm, u, t)
    t2 = z3.fpAdd(rm, t, h)
    zero = z3.FPVal(0.0, F)
    fin = z3.And(z3.Not(z3.fpIsNaN(t)), z3.Not(z3.fpIsInf(t)), z3.Not(z3.fpIsNaN(u)), z3.Not(z3.fpIsInf(u)))
    two_t = z3.fpMul(rm, z3.FPVal(2.0, F), t)
    res = []

    def q(name, pre, post, expect):
        s = z3.Solver()
        s.set('timeout', timeout_ms)
        s.add(pre, z3.Not(post))
        t0 = time.time()
        r = str(s.check())
        dt = time.time() - t0
        if expect == 'unsat':
            st = 'unsat' if r == 'unsat' else ('unknown' if r == 'unknown' else 'sat-not-reproduced')
            det = None
            if r == 'sat':
                m = s.model()
                tv, uv = float(eval(str(m[t]).replace('*(2**', '*(2.0**'))) if False else None, None
                det = str(m)
            res.append(dict(harness='fp', name=name, status=st, secs=dt, detail=det))
        else:
            # a witness is expected; it is replayed in python floats (the real arithmetic)
            if r == 'sat':
                m = s.model()
                import struct
                def val(x):
                    v = m.eval(x, model_completion=True)
                    bits = z3.simplify(z3.fpToIEEEBV(v)).as_long()
                    return struct.unpack('<d', struct.pack('<Q', bits))[0]
                tv, uv = val(t), val(u)
                ok = (tv + (uv - tv)) != uv
                res.append(dict(harness='twin', name=name, status='witness-ok' if ok else 'witness-missing', secs=dt))
                res.append(dict(kind='sample', obj={'fp_inexact_landing_witness': {'t': tv, 'u': uv, 't+(u-t)': tv + (uv - tv)},
                                                    'note': 'outside the Sterbenz regime u <= 2t'}))
            else:
                res.append(dict(harness='twin', name=name, status='witness-missing', secs=dt))
    q('fl(t + fl(u - t)) == u for 0 <= t <= u <= 2t',
      z3.And(fin, z3.fpGEQ(t, zero), z3.fpLEQ(t, u), z3.fpLEQ(u, two_t), z3.fpLEQ(u, z3.FPVal(1e6, F))),
      z3.fpEQ(t2, u), 'unsat')
    q('inexact landing exists for u > 2t (vacuity twin of the lemma)',
      z3.And(fin, z3.fpGEQ(t, zero), z3.fpLEQ(t, u), z3.fpLEQ(u, z3.FPVal(1e6, F))),
      z3.fpEQ(t2, u), 'sat')
    return res
