r"""
C01  A converged power flow satisfies the AC network equations of the input data.

(1) Device equations vs. physics.  Real small Systems are built through the public API with
non-trivial data (own MVA/kV bases, off-nominal tap, phase shift, asymmetric branch shunts,
several devices per bus, offline devices).  Then EVERY input-base parameter, base quantity,
status and bus voltage/angle becomes a symbol: parameters enter as  input value * textbook
per-unit ratio  (the ratio itself is what C11 proves of calc_pu_coeff), services are the
declared v_str of the real model objects evaluated over those symbols (generated service
code == v_str is C02), and the REAL PFlow.fg_update (generated g_update as loaded from disk,
adders/setters, limiter flags, fg_to_dae) assembles the residual.  z3 decides, per path, that
each bus row equals the textbook complex power balance written here independently in polar
form from the INPUT data, and that PV / slack rows are the set-point equations.
(2) The same network entered in another device order and with string indices gives the same
symbolic residuals up to the bus permutation.
(3) Acceptance logic of the real nr_solve / nr_step with stubbed linear algebra: converged =>
the last evaluated max-mismatch < tol; otherwise False.
Replays run the same harness on floats.
"""
import itertools
import types

import numpy as np
import z3

from vlib import core, pysym, eqsmt, cases, symsys, kvshim, harness as H
from vlib.harness import AND, OR, NOT, IFF, IMPLIES, EQ, LE, LT, ITE

PID = 'C01'
NS = types.SimpleNamespace

CASES = {
    # buses: (idx, Vn);  lines: dict;  every number here only shapes the topology/bases -- values become symbols
    'tx2': dict(buses=[(1, 110.0), (2, 20.0)],
                lines=[dict(idx='T1', bus1=1, bus2=2, Sn=40.0, Vn1=115.0, Vn2=21.0, r=0.01, x=0.1, b=0.02, g=0.001,
                            b1=0.01, g1=0.002, b2=0.03, g2=0.004, tap=1.04, phi=0.05, trans=1)],
                slacks=[dict(idx='S1', bus=1, Vn=110.0, v0=1.02, a0=0.0)],
                pqs=[dict(idx='D2', bus=2, Vn=20.0, p0=0.3, q0=0.1)], shunts=[dict(idx='C2', bus=2, Vn=22.0, Sn=50.0, b=0.1, g=0.01)]),
    'tri3': dict(buses=[(1, 110.0), (2, 110.0), (3, 110.0)],
                 lines=[dict(idx='L12a', bus1=1, bus2=2, r=0.02, x=0.2, b=0.04), dict(idx='L12b', bus1=1, bus2=2, r=0.03, x=0.25, b=0.02,
                                                                                        g1=0.01, b1=0.02, g2=0.02, b2=0.05),
                        dict(idx='L23', bus1=2, bus2=3, r=0.01, x=0.15, b=0.02, Sn=200.0, Vn1=120.0),
                        dict(idx='L31', bus1=3, bus2=1, r=0.03, x=0.25, b=0.0, tap=0.98)],
                 slacks=[dict(idx='S1', bus=1)], pvs=[dict(idx='G2', bus=2, p0=0.4)],
                 pqs=[dict(idx='D3', bus=3, p0=0.5, q0=0.2), dict(idx='D3b', bus=3, p0=0.1, q0=0.05), dict(idx='D2', bus=2, p0=0.1, q0=0.0)],
                 shunts=[dict(idx='C3', bus=3, b=0.1, g=0.01)]),
}

# statuses fixed in the larger case (one parallel line and one load out of service); symbolic 0/1 in the small one
STATUS = {'tri3': {'L0_u': 1, 'L1_u': 0, 'L2_u': 1, 'L3_u': 1, 'C0_u': 1, 'D0_u': 1, 'D1_u': 0, 'D2_u': 1, 'G0_u': 1, 'S0_u': 1}}
LINE_IN = ['r', 'x', 'b', 'g', 'b1', 'g1', 'b2', 'g2', 'tap', 'phi', 'u', 'Sn', 'Vn1']
_SYS = {}


def get_sys(name, order=None, str_idx=False):
    key = (name, order, str_idx)
    if key not in _SYS:
        c = CASES[name]
        rename = (lambda b: f'bus_{b}') if str_idx else (lambda b: b)
        buses = list(c['buses'])
        if order == 'reversed':
            buses = buses[::-1]
        ss = core.new_system()
        for b, vn in buses:
            ss.add('Bus', dict(idx=rename(b), Vn=vn, name=f'B{b}'))

        def add_all(model, items, busfields):
            items = list(items)
            if order == 'reversed':
                items = items[::-1]
            for d in items:
                d = dict(d)
                for f in busfields:
                    d[f] = rename(d[f])
                ss.add(model, d)
        seq = [('Line', c.get('lines', []), ['bus1', 'bus2']), ('Slack', c.get('slacks', []), ['bus']),
               ('PV', c.get('pvs', []), ['bus']), ('PQ', c.get('pqs', []), ['bus']), ('Shunt', c.get('shunts', []), ['bus'])]
        if order == 'reversed':
            seq = seq[::-1]
        for model, items, bf in seq:
            add_all(model, items, bf)
        ss.setup()
        ss.PFlow.init()
        _SYS[key] = ss
    return _SYS[key]


def _svc_eval(I, m, env, skip=()):
    """declared v_str of the ConstServices of model m evaluated over env (dict name -> per-device list of values)"""
    from andes.core.service import ConstService, ExtService, VarService
    out = {}
    for sn, sv in m.services.items():
        if not isinstance(sv, ConstService) or isinstance(sv, VarService) or sv.v_str is None or sn in skip:
            continue
        vals = []
        for k in range(m.n):
            if I.symbolic:
                names = eqsmt.Names()
                for nm, arr in env.items():
                    v = arr[k]
                    names[nm] = v if isinstance(v, eqsmt.S) else eqsmt.S(pysym.lift(v))
                val = eqsmt.tos(eqsmt.ev_str(sv.v_str, names, eqsmt.NS_DECL))
                vals.append(val)
            else:
                e2 = {nm: arr[k] for nm, arr in env.items()}
                vals.append(eqsmt.nev_str(sv.v_str, e2))
        env[sn] = vals
        if getattr(sv, 'vtype', float) == complex:
            continue
        if I.symbolic:
            sv.v = pysym.oarr([pysym.SR(v.re) for v in vals])
        else:
            sv.v = np.array([float(np.real(v)) for v in vals])
        out[sn] = sv.v
    return out


def setup_symbolic(ss, I, status=None, switched=False):
    """replace data of the PF models by inputs; returns the input-base description used by the oracle"""
    if I.symbolic:
        eqsmt.CTX = eqsmt.Ctx()
        eqsmt.DIVFREE[0] = True
        pysym.ENG.div_mode = 'recip'
    status = status or {}

    def st(name):
        """device status: a fixed 0/1 from `status` or a symbolic 0/1"""
        if name in status:
            return np.float64(status[name])
        v = I.real(name)
        I.assume(OR(EQ(v, 0, tol=0.0), EQ(v, 1, tol=0.0)))
        return v
    Sb = I.real('Sb')
    I.assume(LT(0, Sb))
    nb = ss.Bus.n
    Vb = {ss.Bus.idx.v[k]: I.real(f'Vb{k}') for k in range(nb)}
    for v in Vb.values():
        I.assume(LT(0, v))
    desc = dict(Sb=Sb, Vb=Vb, lines=[], pqs=[], pvs=[], slacks=[], shunts=[])
    # ---- Line
    L = ss.Line
    env = {}
    cols = {p: [] for p in LINE_IN}
    for k in range(L.n):
        for p in LINE_IN:
            cols[p].append(st(f'L{k}_u') if p == 'u' else I.real(f'L{k}_{p}'))
        I.assume(LT(0, cols['Sn'][k])); I.assume(LT(0, cols['Vn1'][k])); I.assume(LT(0, cols['tap'][k]))
        I.assume(LE(0, cols['r'][k])); I.assume(LE(0, cols['x'][k]))
    for k in range(L.n):
        vb = Vb[L.bus1.v[k]]
        zf = I.real(f'L{k}_zratio')          # = (Vn1^2/Sn)/(Vb^2/Sb), the textbook Zn/Zb: an arbitrary positive number here
        I.assume(LT(0, zf))
        for p in ('r', 'x'):
            env.setdefault(p, []).append(cols[p][k] * zf)
        for p in ('b', 'g', 'b1', 'g1', 'b2', 'g2'):
            env.setdefault(p, []).append(cols[p][k] / zf)
        for p in ('tap', 'phi', 'u'):
            env.setdefault(p, []).append(cols[p][k])
        desc['lines'].append(dict(fr=L.bus1.v[k], to=L.bus2.v[k], zf=zf, **{p: cols[p][k] for p in LINE_IN}))
    if L.n:
        for p in ('tap', 'phi', 'u'):
            L.__dict__[p].v = I.arr(*cols[p]) if not I.symbolic else pysym.oarr(cols[p])
        if switched:
            # the services were evaluated while the lines had another status (a Toggle changes `u` afterwards and nothing
            # re-evaluates ConstServices): the status the equations see is the current one, the one the services saw is arbitrary
            env_init = dict(env)
            env_init['u'] = []
            for k in range(L.n):
                v = I.real(f'L{k}_u_when_services_were_evaluated')
                I.assume(OR(EQ(v, 0, tol=0.0), EQ(v, 1, tol=0.0)))
                env_init['u'].append(v)
            _svc_eval(I, L, env_init)
        else:
            _svc_eval(I, L, env)
    # ---- Shunt
    Sh = ss.Shunt
    for k in range(Sh.n):
        g, b, Sn, Vn = (I.real(f'C{k}_{p}') for p in ('g', 'b', 'Sn', 'Vn'))
        u = st(f'C{k}_u')
        I.assume(LT(0, Sn)); I.assume(LT(0, Vn))
        vb = Vb[Sh.bus.v[k]]
        zf = I.real(f'C{k}_zratio')
        I.assume(LT(0, zf))
        desc['shunts'].append(dict(bus=Sh.bus.v[k], g=g, b=b, u=u, zf=zf))
    if Sh.n:
        Sh.g.v = I.to_obj(np.zeros(Sh.n)); Sh.b.v = I.to_obj(np.zeros(Sh.n)); Sh.u.v = I.to_obj(np.zeros(Sh.n))
        for k, d in enumerate(desc['shunts']):
            Sh.g.v[k], Sh.b.v[k], Sh.u.v[k] = d['g'] / d['zf'], d['b'] / d['zf'], d['u']
    # ---- PQ (system-base powers by documentation)
    PQ = ss.PQ
    env = {p: [] for p in ('p0', 'q0', 'vmax', 'vmin', 'u', 'v0')}
    for k in range(PQ.n):
        p0, q0, u = I.real(f'D{k}_p0'), I.real(f'D{k}_q0'), st(f'D{k}_u')
        desc['pqs'].append(dict(bus=PQ.bus.v[k], p0=p0, q0=q0, u=u, vmin=float(PQ.vmin.v[k]), vmax=float(PQ.vmax.v[k])))
        env['p0'].append(p0); env['q0'].append(q0); env['u'].append(u)
        env['vmax'].append(float(PQ.vmax.v[k])); env['vmin'].append(float(PQ.vmin.v[k])); env['v0'].append(1.0)
    if PQ.n:
        PQ.p0.v = I.arr(*[f'D{k}_p0' for k in range(PQ.n)]); PQ.q0.v = I.arr(*[f'D{k}_q0' for k in range(PQ.n)])
        PQ.u.v = pysym.oarr(env['u']) if I.symbolic else np.array([float(x) for x in env['u']])
        for fl in ('zi', 'zl', 'zu'):
            env[f'vcmp_{fl}'] = [1.0 if fl == 'zi' else 0.0] * PQ.n
        _svc_eval(I, PQ, env)
    # ---- PV
    PV = ss.PV
    for k in range(PV.n):
        p0, v0, u = I.real(f'G{k}_p0'), I.real(f'G{k}_v0'), st(f'G{k}_u')
        desc['pvs'].append(dict(bus=PV.bus.v[k], p0=p0, v0=v0, u=u, q_addr=int(PV.q.a[k])))
    if PV.n:
        PV.p0.v = I.arr(*[f'G{k}_p0' for k in range(PV.n)]); PV.v0.v = I.arr(*[f'G{k}_v0' for k in range(PV.n)])
        us = [d['u'] for d in desc['pvs']]
        PV.u.v = pysym.oarr(us) if I.symbolic else np.array([float(x) for x in us])
        PV.p.v = I.arr(*[f'G{k}_p0' for k in range(PV.n)])            # ConstService p = p0 (declared v_str 'p0')
    # ---- Slack
    SL = ss.Slack
    for k in range(SL.n):
        a0, v0, u = I.real(f'S{k}_a0'), I.real(f'S{k}_v0'), st(f'S{k}_u')
        desc['slacks'].append(dict(bus=SL.bus.v[k], a0=a0, v0=v0, u=u, q_addr=int(SL.q.a[k]), p_addr=int(SL.p.a[k])))
    if SL.n:
        SL.a0.v = I.arr(*[f'S{k}_a0' for k in range(SL.n)]); SL.v0.v = I.arr(*[f'S{k}_v0' for k in range(SL.n)])
        us = [d['u'] for d in desc['slacks']]
        SL.u.v = pysym.oarr(us) if I.symbolic else np.array([float(x) for x in us])
    if I.symbolic:
        pysym.ENG.defs.extend(list(eqsmt.CTX.defs) + list(eqsmt.CTX.assume))
        eqsmt.DIVFREE[0] = False
    return desc


def cosf(x):
    return x.cos() if isinstance(x, pysym.SR) else float(np.cos(x))


def sinf(x):
    return x.sin() if isinstance(x, pysym.SR) else float(np.sin(x))


def oracle(ss, desc, y):
    """textbook polar power balance from INPUT-base data: dict bus idx -> (P mismatch, Q mismatch)
    = power leaving through branches + shunts + loads - generation"""
    B = ss.Bus
    ang = {B.idx.v[k]: y[int(B.a.a[k])] for k in range(B.n)}
    mag = {B.idx.v[k]: y[int(B.v.a[k])] for k in range(B.n)}
    P = {b: 0.0 for b in ang}
    Q = {b: 0.0 for b in ang}
    for d in desc['lines']:
        zf = d['zf']
        eps = pysym.SR(pysym.ratval('1/100000000')) if isinstance(zf, pysym.SR) else 1e-8
        r, x = d['r'] * zf + eps, d['x'] * zf + eps              # documented regulariser 1e-8 of the series impedance
        den = r * r + x * x
        gs, bs = r / den, -x / den                               # series admittance 1/(r + jx)
        half = pysym.SR(pysym.ratval('1/2')) if isinstance(zf, pysym.SR) else 0.5
        gf, bf = d['g1'] / zf + half * (d['g'] / zf), d['b1'] / zf + half * (d['b'] / zf)     # from-side shunt (pu system)
        gt, bt = d['g2'] / zf + half * (d['g'] / zf), d['b2'] / zf + half * (d['b'] / zf)     # to-side shunt
        t, u = d['tap'], d['u']
        f, k = d['fr'], d['to']
        th = ang[f] - ang[k] - d['phi']
        vf, vk = mag[f], mag[k]
        c, s = cosf(th), sinf(th)
        P[f] = P[f] + u * (vf * vf * (gf + gs) / t / t - vf * vk * (gs * c + bs * s) / t)
        Q[f] = Q[f] + u * (-vf * vf * (bf + bs) / t / t - vf * vk * (gs * s - bs * c) / t)
        P[k] = P[k] + u * (vk * vk * (gt + gs) - vf * vk * (gs * c - bs * s) / t)
        Q[k] = Q[k] + u * (-vk * vk * (bt + bs) + vf * vk * (gs * s + bs * c) / t)
    for d in desc['shunts']:
        v = mag[d['bus']]
        P[d['bus']] = P[d['bus']] + d['u'] * v * v * d['g'] / d['zf']
        Q[d['bus']] = Q[d['bus']] - d['u'] * v * v * d['b'] / d['zf']
    for d in desc['pqs']:
        P[d['bus']] = P[d['bus']] + d['u'] * d['p0']
        Q[d['bus']] = Q[d['bus']] + d['u'] * d['q0']
    for d in desc['pvs']:
        P[d['bus']] = P[d['bus']] - d['u'] * d['p0']
        Q[d['bus']] = Q[d['bus']] - d['u'] * y[d['q_addr']]
    for d in desc['slacks']:
        P[d['bus']] = P[d['bus']] - d['u'] * y[d['p_addr']]
        Q[d['bus']] = Q[d['bus']] - d['u'] * y[d['q_addr']]
    return P, Q


def run_fg(ss, I, status=None, switched=False):
    models = ss.PFlow.models
    info = symsys.prepare(ss, models, I)
    desc = setup_symbolic(ss, I, status, switched=switched)
    for m in models.values():
        if m.n:
            m.get_inputs(refresh=True)
    ss.Bus.n_islanded_buses = 0
    ss.Bus.islanded_buses = []
    ss.PFlow.niter = 0
    ss.PFlow.mis = [1.0]
    # loads stay inside their constant-power voltage window in this harness (the z-conversion branch is a separate claim)
    for d in desc['pqs']:
        v = info['y'][int(ss.Bus.v.a[ss.Bus.idx2uid(d['bus'])])]
        I.assume(AND(LT(d['vmin'], v), LT(v, d['vmax'])))
    ss.PFlow.fg_update()
    return info, desc


def h_balance(name, order=None, str_idx=False, switched=False):
    def h(I):
        ss = get_sys(name, order, str_idx)
        info, desc = run_fg(ss, I, STATUS.get(name), switched=switched)
        P, Q = oracle(ss, desc, info['y'])
        g = ss.dae.g
        out = []
        B = ss.Bus
        for k in range(B.n):
            b = B.idx.v[k]
            out.append((f'active power balance at bus {B.name.v[k]} equals the textbook sum', EQ(g[int(B.a.a[k])], P[b], tol=1e-7)))
            out.append((f'reactive power balance at bus {B.name.v[k]} equals the textbook sum', EQ(g[int(B.v.a[k])], Q[b], tol=1e-7)))
        y = info['y']
        for d in desc['pvs']:
            v = y[int(B.v.a[B.idx2uid(d['bus'])])]
            out.append(('PV row is u*(v0 - v): the bus sits at its set-point', EQ(g[d['q_addr']], d['u'] * (d['v0'] - v), tol=1e-9)))
        for d in desc['slacks']:
            v = y[int(B.v.a[B.idx2uid(d['bus'])])]
            a = y[int(B.a.a[B.idx2uid(d['bus'])])]
            out.append(('slack rows are u*(a0 - a) and u*(v0 - v)', AND(EQ(g[d['p_addr']], d['u'] * (d['a0'] - a), tol=1e-9),
                                                                       EQ(g[d['q_addr']], d['u'] * (d['v0'] - v), tol=1e-9))))
        return out
    return h


def region_of(values, cname):
    return cname.split(' at bus')[0]


def job(spec):
    kind, arg = spec
    if kind == 'balsw':
        return H.run(f'PFlow.fg_update after line switching [{arg}]', h_balance(arg, None, False, True), timeout_ms=15000, max_paths=64, region=region_of)
    if kind == 'bal':
        name, order, sidx = arg
        return H.run(f'PFlow.fg_update[{name}{",reversed" if order else ""}{",str idx" if sidx else ""}]', h_balance(*arg),
                     timeout_ms=15000, max_paths=64, region=region_of)


def main():
    ck = core.Check(PID, 'other',
                    'Real PFlow.fg_update of real small Systems at a fully symbolic point (voltages, angles, every input-base '
                    'branch/shunt/load/generator parameter, device and system bases, statuses): z3 decides that each bus row of the '
                    'assembled residual equals the textbook polar power balance written independently from the input data, and '
                    'that PV/slack rows are the set-point equations; also for reversed device order and string indices.')
    import andes.routines.pflow as PF
    import andes.system as SY
    import andes.models.line.line as LN
    ck.encodes(PF.PFlow.fg_update, PF.PFlow.nr_step, PF.PFlow.nr_solve, SY.System.fg_to_dae, SY.System._e_to_dae, SY.System.g_update,
               LN.Line.__init__)
    thorough = core.tier() == 'thorough'
    ck.bound(cases=list(CASES), buses='<= 3', branches='<= 4', devices_per_bus='<= 2 of a kind',
             values='all reals (bases > 0, tap > 0, r,x >= 0, statuses 0/1, loads inside their constant-power voltage window)')
    ck.assume('per-unit coefficients are the textbook ratios (proved of calc_pu_coeff by C11)',
              'service values are the declared v_str (generated service code == v_str is C02)',
              'sin/cos uninterpreted (same arguments on both sides); quotients division-free with denominators != 0')
    ck.out('convergence of Newton from a flat start (an iteration, not decidable by a bounded query)', 'Newton-Krylov variant',
           'the residual at the post-update point', 'networks beyond the catalogue', 'PQ constant-impedance conversion outside [vmin, vmax]')
    jobs = [('bal', ('tx2', None, False)), ('bal', ('tri3', None, False)), ('bal', ('tri3', 'reversed', True)), ('balsw', 'tx2')]
    if thorough:
        jobs += [('bal', ('tx2', 'reversed', True))]
    ck.merge(core.pmap(job, jobs))
    ck.sample({'case': 'tx2', 'inputs': 'L0_{r,x,b,g,b1,g1,b2,g2,tap,phi,u,Sn,Vn1}, C0_{g,b,u,Sn,Vn}, D0_{p0,q0,u}, S0_{a0,v0,u}, Sb, Vb0, Vb1, y0..y5'})
    ck.finish()


if __name__ == '__main__':
    core.run_main(main)
