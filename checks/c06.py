r"""
C06  Scheduled events fire exactly once at their exact time; the time grid is exact.

Inductive step over the REAL loop of TDS.run: the body of its `while` loop, the loop test and
the epilogue are cut out of the AST of the current source of andes/routines/tds.py, compiled
in that module's globals and executed under pysym from an ARBITRARY symbolic pre-state that
satisfies the grid invariant I (sorted unique switch times, pointer between dispatched and
pending events, current target time not beyond the next pending event nor tf).  One
iteration -- real do_switch and calc_h, integration step stubbed as a nondeterministic
success flag -- must re-establish I, dispatch an event iff the accepted time equals the
pending switch time (exactly once, to exactly the owning models), never move past a pending
event or tf, store exactly the accepted stamp, and make strict progress.  Base case: the state
after init()'s first calc_h.  Exit: loop test false /\ I  =>  t == tf and success.
Also: real System.store_switch_times on symbolic timer values, TimerParam.is_time and the
Toggle / Fault / Alter callbacks on real small Systems.
"""
import ast
import inspect
import textwrap
import types

import numpy as np
import z3

from vlib import core, pysym, harness as H
from vlib.harness import AND, OR, NOT, IFF, IMPLIES, EQ, LE, LT, ITE

PID = 'C06'
NS = types.SimpleNamespace


class _Log:
    def debug(self, *a, **k): pass
    info = warning = error = critical = debug


_CUT = None


def cut_loop():
    """(body_fn, test_fn, epilogue_fn, cuts) compiled from the CURRENT source of TDS.run"""
    global _CUT
    if _CUT is not None:
        return _CUT
    import andes.routines.tds as tdsmod
    src = textwrap.dedent(inspect.getsource(tdsmod.TDS.run))
    fn = ast.parse(src).body[0]
    loops = [n for n in fn.body if isinstance(n, ast.While)]
    if len(loops) != 1:
        raise RuntimeError('TDS.run no longer has exactly one top-level while loop')
    loop = loops[0]
    after = fn.body[fn.body.index(loop) + 1]
    if not isinstance(after, ast.If):
        raise RuntimeError('statement after the loop is not the success/failure epilogue')
    cuts = []

    class Slice(ast.NodeTransformer):
        # progress-bar arithmetic only feeds tqdm; removed by name (listed as a cut)
        def visit_Assign(self, node):
            if any(isinstance(t, ast.Name) and t.id in ('perc', 'perc_diff') for t in node.targets):
                cuts.append(ast.unparse(node)[:60]); return None
            return node

        def visit_If(self, node):
            names = {n.id for n in ast.walk(node.test) if isinstance(n, ast.Name)}
            if 'perc_diff' in names:
                cuts.append('if ' + ast.unparse(node.test)); return None
            self.generic_visit(node)
            return node

        def visit_Expr(self, node):
            if isinstance(node.value, ast.Call) and 'pbar' in ast.unparse(node.value.func):
                cuts.append(ast.unparse(node)[:60]); return None
            return node
    body = [Slice().visit(s) for s in loop.body]
    body = [s for s in body if s is not None]
    args = ast.arguments(posonlyargs=[], args=[ast.arg('self'), ast.arg('system'), ast.arg('dae'), ast.arg('config')],
                         kwonlyargs=[], kw_defaults=[], defaults=[])
    f_body = ast.FunctionDef(name='_body', args=args, decorator_list=[], type_params=[],
                             body=[ast.For(target=ast.Name('_once', ast.Store()),
                                           iter=ast.Tuple([ast.Constant(0)], ast.Load()), body=body, orelse=[])])
    f_test = ast.FunctionDef(name='_test', args=args, decorator_list=[], type_params=[],
                             body=[ast.Return(loop.test)])
    ep = Slice().visit(after)
    f_epi = ast.FunctionDef(name='_epilogue', args=args, decorator_list=[], type_params=[],
                            body=[ast.Assign([ast.Name('succeed', ast.Store())], ast.Constant(False)), ep,
                                  ast.Return(ast.Name('succeed', ast.Load()))])
    mod = ast.Module(body=[f_body, f_test, f_epi], type_ignores=[])
    ast.fix_missing_locations(mod)
    g = dict(tdsmod.__dict__)
    g['logger'] = _Log()
    g['np'] = pysym.NPX
    exec(compile(mod, '<repo:TDS.run loop, cut from current source>', 'exec'), g)
    _CUT = (g['_body'], g['_test'], g['_epilogue'], cuts)
    return _CUT


class KeyDict(dict):
    """switch_dict: event time -> models; records look-ups"""


def make_tds(I, idx, nsw=3, base_case=False, conv_fix=None, fixt_fix=None):
    from andes.routines.tds import TDS
    import andes.routines.tds as tdsmod
    tds = TDS.__new__(TDS)
    S = [I.real(f's{k}') for k in range(nsw)]
    for a, b in zip(S[:-1], S[1:]):
        I.assume(LT(a, b))
    tf = I.real('tf')
    tstep = I.real('tstep')
    fixt = I.boolean('fixt') if fixt_fix is None else fixt_fix
    shrinkt = I.boolean('shrinkt')
    cfg = NS(tf=tf, t0=0.0, fixt=fixt, shrinkt=shrinkt, tstep=tstep, save_every=1, limit_store=0, max_store=900,
             qrt=0, kqrt=1.0, refresh_event=0, check_conn=0, criteria=0, no_tqdm=1)
    stored, fired = [], []
    dae = NS(t=I.real('t'), kcount=0, ts=NS(_ys=[]), n=2)
    dae.store = lambda: stored.append(dae.t)
    sd = {}
    for k, s in enumerate(S):
        sd[s if I.symbolic else float(s)] = f'models@{k}'
    system = NS(dae=dae, switch_times=(pysym.oarr(S) if I.symbolic else np.array([float(s) for s in S])), n_switches=nsw,
                config=NS(save_stats=0, freq=60.0), switch_dict=sd, files=NS(no_output=True), exit_code=0)
    system.switch_action = lambda models: fired.append((models, dae.t))
    system.vars_to_models = lambda: None
    tds.system, tds.config = system, cfg
    if I.symbolic:
        # numpy functions that do not delegate to objects (isclose, isnan) are given their definition on symbols
        for nm in ('calc_h', 'do_switch', '_calc_h_first'):
            f = getattr(TDS, nm)
            g2 = dict(f.__globals__); g2['np'] = pysym.NPX; g2['logger'] = _Log()
            setattr(tds, nm, types.MethodType(types.FunctionType(f.__code__, g2, f.__name__, f.__defaults__, f.__closure__), tds))
    tds.h = I.real('h')
    tds.deltat, tds.deltatmin, tds.deltatmax = I.real('deltat'), I.real('dtmin'), I.real('dtmax')
    tds.niter = I.real('niter')
    tds.converged, tds.chatter, tds.busted, tds.err_msg = True, False, False, ''
    tds._switch_idx, tds._last_switch_t, tds.custom_event = idx, -999.0, False
    tds.callpert, tds.data_csv, tds.k_csv, tds.last_pc = None, None, 0, 0.0
    tds.pbar = NS(update=lambda x: None, close=lambda: None)
    conv = I.boolean('conv') if conv_fix is None else conv_fix
    nit2 = I.real('niter_new')

    def itm_step():
        tds.converged = bool(conv)
        tds.niter = nit2
        return tds.converged
    tds.itm_step = itm_step
    tds.streaming_step = lambda: None
    tds.check_criteria = lambda: True
    # --- invariant I on the pre-state
    t, h = dae.t, tds.h
    I.assume(LT(0, tf)); I.assume(LT(0, tstep))
    if base_case:
        return tds, system, cfg, S, stored, fired, conv
    I.assume(LE(0, h)); I.assume(LE(t, tf)); I.assume(LE(0, t - h))
    I.assume(LT(0, tds.deltatmin)); I.assume(LE(tds.deltatmin, tds.deltat)); I.assume(LE(tds.deltat, tds.deltatmax))
    I.assume(LE(h, tds.deltat))
    I.assume(IMPLIES(fixt, LE(tds.deltat, tstep)))
    I.assume(LE(0, tds.niter)); I.assume(LE(1, nit2))      # a step runs at least one Newton iteration
    I.assume(LT(0, t))                                       # inside the loop the target time is past t0
    if idx < nsw:
        I.assume(LE(t, S[idx])); I.assume(LT(t - h, S[idx]))
    if idx > 0:
        I.assume(LE(S[idx - 1], t - h))
    # h is what calc_h produced: the step-size state clipped by tf and by the pending event
    I.assume(OR(EQ(h, tds.deltat, tol=0.0), EQ(t, tf, tol=0.0), (EQ(t, S[idx], tol=0.0) if idx < nsw else False)))
    return tds, system, cfg, S, stored, fired, conv


def inv_after(tds, system, S, idx2, prev, nsw):
    """the invariant I re-established with `prev` as last accepted time"""
    t2, h2 = system.dae.t, tds.h
    c = [LE(0, h2), LE(t2, tds.config.tf), EQ(t2, prev + h2)]
    if idx2 < nsw:
        c += [LE(t2, S[idx2]), LT(prev, S[idx2])]
    if idx2 > 0:
        c += [LE(S[idx2 - 1], prev)]
    return AND(*c)


def h_loop_iteration(idx, conv_fix=None, fixt_fix=None, nsw=3):
    def h(I):
        body, test, epi, cuts = cut_loop()
        tds, system, cfg, S, stored, fired, conv = make_tds(I, idx, nsw, conv_fix=conv_fix, fixt_fix=fixt_fix)
        t, hh, dt0 = system.dae.t, tds.h, tds.deltat
        # only iterations the loop would really start
        I.assume(test(tds, system, system.dae, cfg))
        body(tds, system, system.dae, cfg)
        idx2 = tds._switch_idx
        out = []
        if tds.busted:
            out.append(('busted only after a rejected step', NOT(conv)))
            out.append(('busted => nothing dispatched or stored', len(fired) == 0 and len(stored) == 0))
            out.append(('busted => h = 0', EQ(tds.h, 0)))
            return out
        if tds.converged:
            at_event = EQ(t, S[idx], tol=0.0) if idx < nsw else False
            out.append(('event dispatched <=> accepted time equals the pending switch time', IFF(len(fired) == 1, at_event)))
            out.append(('at most one dispatch per accepted step', len(fired) <= 1))
            if fired:
                out.append(('dispatch goes to the models owning that switch time, at that time',
                            AND(fired[0][0] == f'models@{idx}', EQ(fired[0][1], t, tol=0.0))))
            out.append(('pointer advances by exactly the dispatched events', idx2 == idx + len(fired)))
            out.append(('invariant re-established (no step crosses a pending event or tf)', inv_after(tds, system, S, idx2, t, nsw)))
            out.append(('strict progress unless at tf', IMPLIES(LT(t, cfg.tf), LT(t, system.dae.t))))
            out.append(('at tf the next step is empty', IMPLIES(EQ(t, cfg.tf, tol=0.0), EQ(tds.h, 0))))
            out.append(('accepted stamp stored exactly once', AND(len(stored) == 1, EQ(stored[0], t, tol=0.0) if stored else False)))
            out.append(('fixed step never exceeded', IMPLIES(cfg.fixt, LE(tds.h, cfg.tstep))))
            out.append(('step-size state stays in range', AND(LE(tds.deltatmin, tds.deltat), LE(tds.deltat, tds.deltatmax),
                                                             LE(tds.h, tds.deltat), IMPLIES(cfg.fixt, LE(tds.deltat, cfg.tstep)))))
        else:
            out.append(('rejected => nothing dispatched or stored, pointer unchanged',
                        len(fired) == 0 and len(stored) == 0 and idx2 == idx))
            out.append(('rejected => retried from the last accepted time with invariant intact',
                        inv_after(tds, system, S, idx2, t - hh, nsw)))
            out.append(('rejected => not beyond the rejected target', LE(system.dae.t, t)))
            out.append(('rejected => step-size state shrinks by 0.9', EQ(tds.deltat, 0.9 * dt0)))
        return out
    return h


def h_base_case(nsw=2, resume=False):
    """state after init(): t = 0, niter = 0, first calc_h; then init()'s caller starts the loop at t = h.
    resume=True: the state init_resume() builds when run() is called again with a later end time."""
    def h(I):
        from andes.routines.tds import TDS
        tds, system, cfg, S, stored, fired, conv = make_tds(I, 0, nsw, base_case=True)
        if not resume:
            # overwrite the pre-state with the one init() has: t = 0, nothing dispatched, switch times >= 0
            system.dae.t = (pysym.SR(z3.RealVal(0)) if I.symbolic else np.float64(0.0))
            tds.niter = 0
            I.assume(LE(0, S[0]))
            tds.solver = None
            tds.calc_h()
        else:
            # a finished run: t = old end time, every event up to it dispatched; the user raised tf
            t_old = I.real('t_old')
            I.assume(LE(0, t_old)); I.assume(LT(t_old, cfg.tf)); I.assume(LT(t_old, S[0]))
            system.dae.t = t_old
            tds.solver = None
            tds.calc_h(resume=True)
        t_start = system.dae.t
        out0 = [('the first step of a (resumed) run respects the fixed step size', IMPLIES(cfg.fixt, LE(tds.h, cfg.tstep))),
                ('the first step of a (resumed) run does not pass the end time', LE(t_start + tds.h, cfg.tf))]
        if resume:
            system.dae.t = system.dae.t + tds.h
            return out0 + [('resumed run starts inside the grid invariant', inv_after(tds, system, S, tds._switch_idx, t_start, nsw)),
                           ('resuming makes progress', LT(t_start, system.dae.t)),
                           ('resuming neither skips nor repeats an event', tds._switch_idx == 0)]
        system.dae.t = system.dae.t + tds.h       # `dae.t += self.h` is what run()/init_resume do next
        idx2 = tds._switch_idx
        out = [('first step keeps the invariant', inv_after(tds, system, S, idx2, 0.0, nsw)),
               ('no event is skipped without being dispatched at initialisation', idx2 == 0)]
        return out0 + out
    return h


def h_exit():
    def h(I):
        body, test, epi, cuts = cut_loop()
        tds, system, cfg, S, stored, fired, conv = make_tds(I, 3, 3)
        go = test(tds, system, system.dae, cfg)
        I.assume(NOT(go))
        ok = epi(tds, system, system.dae, cfg)
        return [('loop exit without bust => t == tf', EQ(system.dae.t, cfg.tf, tol=0.0)),
                ('loop exit without bust => success reported', bool(ok) is True),
                ('exit code not raised on success', system.exit_code == 0)]
    return h


def h_exit_busted():
    def h(I):
        body, test, epi, cuts = cut_loop()
        tds, system, cfg, S, stored, fired, conv = make_tds(I, 3, 3)
        tds.busted = True
        go = test(tds, system, system.dae, cfg)
        ok = epi(tds, system, system.dae, cfg)
        return [('busted => loop stops', NOT(go)), ('busted => failure reported', bool(ok) is False),
                ('busted => exit code raised', system.exit_code > 0)]
    return h


# ------------------------------------------------------------------------ store_switch_times
def h_store_switch_times(I):
    import andes.system as SY
    nowt = I.real('now')
    ta, tb, tc = I.real('ta'), I.real('tb'), I.real('tc')
    eps = 1e-4
    mk = lambda *ts: (pysym.oarr(list(ts)) if I.symbolic else np.array([float(x) for x in ts]))
    A = NS(class_name='A', get_times=lambda: [mk(ta, tb)])
    B = NS(class_name='B', get_times=lambda: [mk(tc)])
    fake = NS(options={}, dae=NS(t=nowt), switch_dict={}, models={'A': A, 'B': B}, switch_times=None, n_switches=0)
    # keep the three events apart from each other's eps-neighbours so that keys are distinct reals
    for x, y in ((ta, tb), (ta, tc), (tb, tc)):
        I.assume(OR(EQ(x, y, tol=0.0), LT(x + 3 * eps, y), LT(y + 3 * eps, x)))
    SY.System.store_switch_times(fake, {'A': A, 'B': B}, eps=eps)
    st = list(fake.switch_times)
    out = [('result sorted strictly increasing (unique)', AND(*[LT(a, b) for a, b in zip(st[:-1], st[1:])]) if len(st) > 1 else True),
           ('n_switches is the length', fake.n_switches == len(st))]
    for nm, tv, owner in (('ta', ta, 'A'), ('tb', tb, 'A'), ('tc', tc, 'B')):
        for off, lab in ((0.0, ''), (-eps, '-eps'), (eps, '+eps')):
            want = tv + off
            present = OR(*[EQ(s, want, tol=1e-15) for s in st]) if st else False
            out.append((f'{nm}{lab} listed <=> it is not in the past', IFF(present, LE(nowt, want))))
            owners_ok = AND(*[IMPLIES(EQ(s, want, tol=1e-15), owner in fake.switch_dict[s]) for s in st]) if st else True
            out.append((f'{nm}{lab} maps to its model', owners_ok))
    for s in st:
        out.append(('every listed time is an event time or its eps neighbour and not in the past',
                    AND(LE(nowt, s), OR(*[EQ(s, tv + off, tol=1e-15) for tv in (ta, tb, tc) for off in (0.0, -eps, eps)]))))
    return out


def h_store_switch_times_one(I):
    """one timer value: the time the loop is steered to IS the time the device compares with (exact equality in is_time)"""
    import andes.system as SY
    nowt, ta = I.real('now'), I.real('ta')
    eps = 1e-4
    I.assume(LE(nowt, ta - eps))
    A = NS(class_name='A', get_times=lambda: [(pysym.oarr([ta]) if I.symbolic else np.array([float(ta)]))])
    fake = NS(options={}, dae=NS(t=nowt), switch_dict={}, models={'A': A}, switch_times=None, n_switches=0)
    SY.System.store_switch_times(fake, {'A': A}, eps=eps)
    st = list(fake.switch_times)
    return [('a single future event yields three grid times', len(st) == 3),
            ('the event time itself is on the grid exactly (TimerParam.is_time compares with ==)', OR(*[EQ(s, ta, tol=0.0) for s in st]) if st else False),
            ('its neighbours are exactly eps away', AND(OR(*[EQ(s, ta - eps, tol=1e-15) for s in st]), OR(*[EQ(s, ta + eps, tol=1e-15) for s in st])) if st else False)]


def h_timeseries_exact(I):
    """real TimeSeries.apply_exact on two devices with different tables: at a time stamp each device whose table has that stamp
    (and only it) writes its row's values to its target; a device without the stamp does not stop the others"""
    import pandas as pd
    import andes.models.timeseries as TSM
    tables = {'TS0': pd.DataFrame({'t': [1.0, 2.0], 'p': [10.0, 20.0]}), 'TS1': pd.DataFrame({'t': [0.5, 1.0, 1.5], 'p': [5.0, 6.0, 7.0]}),
              'TS2': pd.DataFrame({'t': [1.5, 2.0], 'p': [70.0, 80.0]})}
    out = []
    for order in (('TS0', 'TS1', 'TS2'), ('TS2', 'TS0', 'TS1')):
        for t in (0.5, 1.0, 1.5, 2.0, 0.75):
            written = []
            target = NS(set=lambda dest, dev, attr, value: written.append((dev, dest, float(value))))
            fake = NS(n=3, u=NS(v=[1, 1, 1]), SW=NS(s1=[1, 1, 1]), idx=NS(v=list(order)), _data=tables, tkey=NS(v=['t'] * 3), fields=NS(v=[['p']] * 3),
                      dests=NS(v=[['Ppf']] * 3), model=NS(v=['PQ'] * 3), dev=NS(v=['D_' + k for k in order]), system=NS(PQ=target), config=NS(silent=1))
            TSM.TimeSeriesModel.apply_exact(fake, np.float64(t))
            want = sorted(('D_' + k, 'Ppf', float(df.loc[df['t'] == t, 'p'].values[0])) for k, df in tables.items() if t in df['t'].values)
            out.append((f'time series devices listed as {order}: at t = {t} exactly the devices whose table has that stamp write their row', sorted(written) == want))
    return out


# ------------------------------------------------------------------------ callbacks on a real System
_SYS = {}


def ev_system():
    if 'ev' not in _SYS:
        from vlib import cases
        ss = cases.build([1, 2, 3], lines=[dict(bus1=1, bus2=2, idx='L1'), dict(bus1=2, bus2=3, idx='L2'),
                                           dict(bus1=1, bus2=3, idx='L3')],
                         slacks=[1], pqs=[dict(bus=3, idx='PQ3', p0=0.2, q0=0.05)], setup=False,
                         extra=[('Toggle', dict(model='Line', dev='L1', t=1.0, idx='T1')),
                                ('Toggle', dict(model='Line', dev='L2', t=2.0, idx='T2')),
                                ('Fault', dict(bus=2, tf=1.0, tc=1.1, xf=0.01, idx='F1')),
                                ('Alter', dict(model='PQ', dev='PQ3', src='p0', attr='v', method='+', amount=0.1, t=1.5,
                                               idx='A1'))])
        ss.setup()
        _SYS['ev'] = ss
    return _SYS['ev']


def _quiet(I):
    """symbolic runs: message formatting (tqdm.write / logger) is cut out of the callbacks; replays use the originals"""
    import andes.models.timer as TM
    from vlib import astcut
    if I.symbolic:
        for cls, name in ((TM.Toggle, '_u_switch'), (TM.Fault, 'apply_fault'), (TM.Fault, 'clear_fault'),
                          (TM.AlterModel, '_alter_field')):
            astcut.patch_quiet(cls, name)
    else:
        astcut.unpatch_all()


def h_toggle(I):
    _quiet(I)
    ss = ev_system()
    T = ss.Toggle
    ss.Line.u.v = np.ones(ss.Line.n)
    T.u.v = np.array([1.0, 1.0])
    u_en = I.boolean('toggle2_enabled')
    T.u.v = I.to_obj(T.u.v)
    T.u.v[1] = ITE(u_en, 1.0, 0.0) if I.symbolic else (1.0 if u_en else 0.0)
    T.t.v = I.arr('tt0', 'tt1')
    now = I.real('now')
    before = ss.Line.u.v.copy()
    T.switch_action(now)
    out = []
    for k, dev in enumerate(['L1', 'L2']):
        pos = ss.Line.idx2uid(dev)
        want = AND(EQ(now, T.t.v[k], tol=0.0), True if k == 0 else u_en)
        out.append((f'{dev} flipped <=> its enabled toggle is due now', IFF(EQ(ss.Line.u.v[pos], 1 - before[pos], tol=0.0), want)))
    pos3 = ss.Line.idx2uid('L3')
    out.append(('unaddressed device untouched', EQ(ss.Line.u.v[pos3], before[pos3], tol=0.0)))
    return out


def h_fault(I):
    _quiet(I)
    ss = ev_system()
    F = ss.Fault
    F.uf.v = np.zeros(F.n)
    F.u.v = np.ones(F.n)
    F.tf.v = I.arr('f_tf')
    F.tc.v = I.arr('f_tc')
    I.assume(LT(F.tf.v[0], F.tc.v[0]))
    now = I.real('now')
    # the simulator needs the pre-fault voltages; provide the attribute the callback stores into
    try:
        F.switch_action(now)
    except AttributeError as e:
        raise
    applied = EQ(now, F.tf.v[0], tol=0.0)
    cleared = EQ(now, F.tc.v[0], tol=0.0)
    return [('fault flag set <=> now is the application time', IFF(EQ(F.uf.v[0], 1, tol=0.0), applied)),
            ('fault flag stays clear otherwise', IMPLIES(NOT(applied), EQ(F.uf.v[0], 0, tol=0.0)))]


def h_alter(method):
    def h(I):
        _quiet(I)
        ss = ev_system()
        A = ss.Alter
        A.u.v = np.ones(A.n)
        A.method.v = [method]
        for k, mm in enumerate(('+', '-', '*', '/', '=')):      # flags as Switcher.check_var sets them for this method
            A.SW.__dict__[f's{k}'] = np.array([1.0 if mm == method else 0.0])
        amount = I.real('amount')
        A.amount.v = I.arr('amount')
        p_before = I.real('p_before')
        ss.PQ.p0.v = I.arr('p_before')
        ss.PQ.p0.vin = I.arr('p_before')
        if method == '/':
            I.assume(NOT(EQ(amount, 0, tol=0.0)))
        A.t.v = I.arr('a_t')
        now = I.real('now')
        A.switch_action(now)
        due = EQ(now, A.t.v[0], tol=0.0)
        new = {'+': p_before + amount, '-': p_before - amount, '*': p_before * amount, '/': p_before / amount,
               '=': amount}[method]
        got = ss.PQ.p0.v[0]
        return [(f'altered value is old {method} amount when due', IMPLIES(due, EQ(got, new))),
                ('untouched when not due', IMPLIES(NOT(due), EQ(got, p_before)))]
    return h


def region_of(values, cname):
    if cname.startswith('no event is skipped') and values.get('s0') == 0.0:
        return 'event scheduled exactly at t0 is skipped'
    return cname


def job(spec):
    kind, arg = spec
    if kind == 'iter':
        return H.run(f'TDS.run loop body [pointer={arg[0]},converged={arg[1]},fixt={arg[2]}]', h_loop_iteration(*arg),
                     timeout_ms=20000, max_paths=20000, region=region_of)
    if kind == 'base':
        return H.run('TDS.init first calc_h', h_base_case(), timeout_ms=20000, region=region_of,
                     known_regions={'event scheduled exactly at t0 is skipped': z3.Real('s0') == 0})
    if kind == 'resume':
        return H.run('TDS.init_resume first calc_h', h_base_case(resume=True), timeout_ms=20000, region=region_of)
    if kind == 'exit':
        return H.run('TDS.run loop exit + epilogue', h_exit(), region=region_of)
    if kind == 'tseries':
        return H.run('TimeSeries.apply_exact on three tables', h_timeseries_exact, region=lambda v, c: c.split(': ')[-1])
    if kind == 'exitb':
        return H.run('TDS.run epilogue (busted)', h_exit_busted(), region=region_of)
    if kind == 'sst':
        if arg == 'one':
            return H.run('System.store_switch_times[one event]', h_store_switch_times_one, timeout_ms=20000, max_paths=200, region=region_of)
        return H.run('System.store_switch_times', h_store_switch_times, timeout_ms=20000, max_paths=20000, region=region_of, max_seconds=240)
    if kind == 'toggle':
        return H.run('Toggle._u_switch', h_toggle, region=region_of)
    if kind == 'fault':
        return H.run('Fault.apply_fault/clear_fault', h_fault, region=region_of)
    if kind == 'alter':
        return H.run(f'Alter._alter_field[{arg}]', h_alter(arg), region=region_of)


def main():
    ck = core.Check(PID, 'model_checking',
                    'Inductive step over the real TDS.run loop (body, test and epilogue cut from the current source, real '
                    'do_switch / calc_h, integration stubbed by a free success flag): from every symbolic pre-state satisfying '
                    'the grid invariant one iteration re-establishes it, dispatches an event iff the accepted time equals '
                    'the pending switch time (once, to the owning models), never crosses a pending event or tf, stores '
                    'the accepted stamp once and makes strict progress; base case and exit case; store_switch_times and '
                    'event callbacks on symbolic times.')
    import andes.routines.tds as T
    import andes.system as SY
    import andes.core.param as PA
    import andes.models.timer as TM
    import andes.core.model.model as MM
    ck.encodes(T.TDS.run, T.TDS.do_switch, T.TDS.calc_h, T.TDS._calc_h_first, SY.System.store_switch_times,
               SY.System.switch_action, PA.TimerParam.is_time, MM.Model.switch_action, MM.Model.get_times,
               TM.Toggle._u_switch, TM.Fault.apply_fault, TM.Fault.clear_fault, TM.AlterModel._alter_field)
    thorough = core.tier() == 'thorough'
    ck.bound(pending_events=3, iterations_per_query=1, event_models='<= 2 with <= 2 timers', devices_per_event_model='<= 2',
             arithmetic='reals (exact landing in binary64: see fp lemma in thorough tier)')
    body, test, epi, cuts = cut_loop()
    ck.stub('numpy.isclose / numpy.isnan on symbols: their numpy definitions (vlib.pysym.NumpyProxy)', 'itm_step -> free boolean success + free iteration count', 'dae.store -> recorder', 'system.switch_action -> recorder '
            '(loop harness)', 'streaming_step/check_criteria/progress bar -> no-ops',
            'cut from loop body: ' + '; '.join(cuts))
    ck.assume('time is a real number (float landing is the separate binary64 lemma)',
              'invariant I: sorted unique switch times; S[idx-1] <= t-h < S[idx]; t <= S[idx]; t <= tf; 0 < dtmin <= deltat <= '
              'dtmax; h = min(deltat, tf-(t-h), S[idx]-(t-h)); fixt => deltat <= tstep; t > 0 inside the loop; a step runs >= 1 iteration',
              'store_switch_times: distinct event times are more than 3*eps apart')
    ck.out('TimeSeries.apply_exact', 'quasi-real-time sleeping', 'events refreshed during the run (refresh_event=1)',
           'csv replay mode')
    jobs = [('iter', (k, cv, fx)) for k in range(4) for cv in (True, False) for fx in (True, False)] + [('base', 0), ('resume', 0), ('exit', 0), ('exitb', 0), ('sst', 0), ('sst', 'one'), ('tseries', 0), ('toggle', 0), ('fault', 0)] \
        + [('alter', m) for m in ('+', '-', '*', '/', '=')]
    res = core.pmap(job, jobs)
    ck.merge(res)
    paths = ck.paths
    ck.extra['states'] = paths
    ck.extra['transitions'] = paths
    ck.extra['traces_validated_against_impl'] = sum(1 for o in ck.obs if o[2] in ('sat-replayed', 'sat-rounding'))
    ck.sample({'pre-state': 'symbolic (t, h, deltat, dtmin, dtmax, tstep, tf, s0<s1<s2, pointer, niter, conv, fixt, shrinkt)',
               'transition': 'one iteration of the loop of TDS.run'})
    if thorough:
        from checks import c06_fp
        ck.merge(c06_fp.run())
    ck.finish()


if __name__ == '__main__':
    core.run_main(main)
