"""
C02  Generated numerical code computes exactly the declared model equations.

Translation validation with an SMT solver: for every model of the current tree, every
function of the generated module that the real System loads from disk (f_update,
g_update, <var>_ia, <group>_ii/_ij, <service>_svc, sns_update) is interpreted from its
AST over z3 Real terms with its parameters bound POSITIONALLY through the module's own
*_args lists (as Model.refresh_inputs_arg does) and proved equal -- for all argument
values -- to the declared string (e_str / v_str / v_iter) of the variable or service that
Model.f_update/g_update/init/s_update deliver the value to, the declared string being
parsed by Python's ast with an independent semantics table (not sympy).
"""
import os
import random
import sys
import time

import z3

from vlib import core, eqsmt, modelsmt
from vlib.eqsmt import S, B, tos, NS_DECL, NS_GEN, Ctx

PID = 'C02'
TO_QUICK, TO_THOROUGH = 10000, 60000


def _status_and_replay(m, gen, fname, arglist, idx, decl_str, names, ga, de, timeout, tag, shape=None):
    """prove ga == de; on sat replay on the real generated function vs. numeric oracle"""
    try:
        st, mdl, dt = eqsmt.check_neq(ga, de, timeout_ms=timeout)
    except Exception as e:
        return [dict(harness='equiv', name=tag, status='unknown', secs=0, detail='encode: ' + repr(e)[:200])]
    out = []
    if st == 'unsat':
        return [dict(harness='equiv', name=tag, status='unsat', secs=dt)]
    if st != 'sat':
        return [dict(harness='equiv', name=tag, status='unknown', secs=dt, detail='solver: ' + st)]
    # ---- replay
    cx = modelsmt.complex_services(m)
    envs = []
    try:
        envs.append(eqsmt.model_env(mdl, names))
    except Exception:
        pass
    rng = random.Random(core.seed() * 7919 + hash(tag) % 1000)
    for k in range(40):
        envs.append(None)
    need = [a for a in arglist if not a.startswith('__')]
    for k, env in enumerate(envs):
        if env is None:
            env = modelsmt.rand_env(set(need) | set(names.keys()), cx, rng, scale=(0.5, 1.0, 2.0)[k % 3])
        else:
            for a in need:
                env.setdefault(a, 0.0)
            for a in list(names.keys()):
                env.setdefault(a, 0.0) if not a.startswith('__') else None
        try:
            env = {k_: v for k_, v in env.items() if not k_.startswith('__')}
            modelsmt.subs_env(m, env)
            real = modelsmt.call_real(gen, fname, {a: env.get(a, 0.0) for a in need}, arglist=arglist)
            if idx is not None:
                import numpy as np
                ra = np.asarray(real, dtype=object) if shape else None
                if shape:
                    real_v = modelsmt.first(real[idx[0]][idx[1]]) if len(idx) == 2 else modelsmt.first(real[idx[0]])
                else:
                    real_v = modelsmt.first(real[idx])
            else:
                real_v = modelsmt.first(real)
            orc = decl_str(env) if callable(decl_str) else eqsmt.nev_str(decl_str, env)
        except Exception as e:
            continue
        if not (modelsmt.finite(real_v) and modelsmt.finite(orc)):
            continue
        if not eqsmt.close(real_v, orc, rtol=1e-9, atol=1e-11):
            return [dict(harness='equiv', name=tag, status='sat-replayed', secs=dt),
                    dict(kind='violation', harness='equiv', region=tag,
                         desc=f'generated {fname} returns {real_v!r} where the declared string gives {orc!r}',
                         replay=dict(model=m.class_name, function=fname, index=idx, args=env,
                                     generated=str(real_v), declared=str(orc),
                                     declared_string=None if callable(decl_str) else str(decl_str)))]
        if k == 0:
            first_close = True
    return [dict(harness='equiv', name=tag, status='sat-not-reproduced', secs=dt,
                 detail='solver model and 40 seeded points agree numerically (UF abstraction / rounding)')]


def check_model(job):
    mname, timeout = job
    ss = modelsmt.system()
    m = ss.models[mname]
    gen = modelsmt.genmodule(mname)
    res = []
    C = gen.consts
    # the code the System executes is the file we parse
    for fn, obj in (('f_update', m.calls.f), ('g_update', m.calls.g)):
        if callable(obj):
            f = getattr(obj, '__code__', None)
            if f is not None and os.path.realpath(f.co_filename) != os.path.realpath(gen.path):
                res.append(dict(kind='error', msg=f'{mname}.{fn} executes {f.co_filename}, not {gen.path}'))

    def arity_violation(fname, e):
        res.append(dict(harness='equiv', name=f'{mname}.{fname}', status='sat-replayed', secs=0))
        res.append(dict(kind='violation', harness='equiv', region=f'{mname}.{fname}.arity', desc=str(e),
                        replay=dict(model=mname, function=fname, error=str(e))))

    # ---- f / g
    for fname, vdict, alist in (('f_update', m.cache.states_and_ext, C.get('f_args', [])),
                                ('g_update', m.cache.algebs_and_ext, C.get('g_args', []))):
        declared_any = any(v.e_str is not None for v in vdict.values())
        if fname not in gen.funcs:
            if declared_any:
                # code says "no function" but equations are declared: only fine if all are literally zero
                names = modelsmt.fresh_names(m)
                for vn, var in vdict.items():
                    if var.e_str is None:
                        continue
                    de = modelsmt.decl(var.e_str, names)
                    res += _status_and_replay(m, gen, fname, [], None, var.e_str, names, S(z3.RealVal(0)), de,
                                              timeout, f'{mname}.{fname}[{vn}] (function absent)')
            continue
        names = modelsmt.fresh_names(m)
        try:
            ga = gen.call(fname, names, alist)
        except eqsmt.ArityError as e:
            arity_violation(fname, e); continue
        if len(ga) != len(vdict):
            arity_violation(fname, f'{fname} returns {len(ga)} values for {len(vdict)} equations'); continue
        for i, (vn, var) in enumerate(vdict.items()):
            de = modelsmt.decl(var.e_str, names)
            es = var.e_str if var.e_str is not None else '0'
            res += _status_and_replay(m, gen, fname, alist, i, es, names, ga[i], de, timeout,
                                      f'{mname}.{fname}[{i}]={vn}')
        # vacuity twin: perturbed right-hand side must be refuted
        if len(vdict):
            vn, var = next(iter(vdict.items()))
            st, _, dt = eqsmt.check_neq(ga[0], modelsmt.decl(var.e_str, names) + 1, timeout_ms=timeout)
            res.append(dict(harness='twin', name=f'{mname}.{fname}[0]+1',
                            status='witness-ok' if st == 'sat' else 'witness-missing', secs=dt))

    # ---- explicit initialisers
    for vn, alist in C.get('ia_args', {}).items():
        fname = f'{vn}_ia'
        var = m.cache.all_vars.get(vn)
        if var is None or fname not in gen.funcs:
            arity_violation(fname, f'{fname}: variable or function missing'); continue
        names = modelsmt.fresh_names(m)
        try:
            ga = gen.call(fname, names, alist)
        except eqsmt.ArityError as e:
            arity_violation(fname, e); continue
        de = modelsmt.decl(var.v_str, names)
        res += _status_and_replay(m, gen, fname, alist, None, var.v_str, names, ga, de, timeout, f'{mname}.{fname}')
    for vn, var in m.cache.all_vars.items():
        if var.v_str is not None and vn not in C.get('ia_args', {}):
            arity_violation(f'{vn}_ia', f'{vn} declares v_str but no {vn}_ia was generated')

    # ---- iterative initialisers and their Jacobians
    for gname, alist in C.get('ii_args', {}).items():
        fname = f'{gname}_ii'
        group = None
        for item in C.get('init_seq', []):
            if isinstance(item, list) and '_'.join(item) == gname:
                group = item
            elif isinstance(item, str) and item == gname:
                group = [item]
        if group is None or fname not in gen.funcs:
            arity_violation(fname, f'{fname}: group not in init_seq'); continue
        names = modelsmt.fresh_names(m)
        try:
            ga = gen.call(fname, names, alist)
            gj = gen.call(f'{gname}_ij', names, C['ij_args'][gname])
        except eqsmt.ArityError as e:
            arity_violation(fname, e); continue
        if len(ga) != len(group):
            arity_violation(fname, 'row count'); continue
        decls = []
        for k, vn in enumerate(group):
            var = m.cache.all_vars[vn]
            de = modelsmt.decl(var.v_iter, names)
            decls.append(de)
            row = ga[k][0] if isinstance(ga[k], list) else ga[k]
            res += _status_and_replay(m, gen, fname, alist, (k, 0), var.v_iter, names, row, de, timeout,
                                      f'{mname}.{fname}[{k}]={vn}', shape=True)
        for k, vn in enumerate(group):
            for c, wn in enumerate(group):
                d = eqsmt.diff(decls[k].re, names[wn].re)
                ent = gj[k][c]
                res += _ij_status(ent, d, timeout, f'{mname}.{gname}_ij[{k},{c}]')

    # ---- services
    nonseq = []
    for sn, sv in m.services.items():
        if getattr(sv, 'sequential', True) is not True:
            nonseq.append((sn, sv)); continue
        if sv.v_str is None:
            continue
        fname = f'{sn}_svc'
        if fname not in gen.funcs:
            # constant services are stored as plain values; nothing executed from disk
            if sn in C.get('s_args', {}):
                arity_violation(fname, 'service function missing')
            continue
        names = modelsmt.fresh_names(m)
        try:
            ga = gen.call(fname, names, C['s_args'][sn])
        except eqsmt.ArityError as e:
            arity_violation(fname, e); continue
        try:
            de = modelsmt.decl(sv.v_str, names)
        except Exception as e:
            res.append(dict(harness='equiv', name=f'{mname}.{fname}', status='unknown', detail='decl: ' + repr(e)[:150]))
            continue
        res += _status_and_replay(m, gen, fname, C['s_args'][sn], None, sv.v_str, names, ga, de, timeout,
                                  f'{mname}.{fname}')
    if 'sns_update' in gen.funcs:
        names = modelsmt.fresh_names(m)
        try:
            ga = gen.call('sns_update', names, C.get('sns_args', []))
            live = list(m.services_var_nonseq.items())
            if len(ga) != len(live):
                arity_violation('sns_update', f'returns {len(ga)} values for {len(live)} non-sequential services')
            else:
                for k, (sn, sv) in enumerate(live):
                    de = modelsmt.decl(sv.v_str if sv.v_str is not None else '0', names)
                    res += _status_and_replay(m, gen, 'sns_update', C.get('sns_args', []), k,
                                              sv.v_str if sv.v_str is not None else '0', names, ga[k], de, timeout,
                                              f'{mname}.sns_update[{k}]={sn}')
        except eqsmt.ArityError as e:
            arity_violation('sns_update', e)
    elif any(sv.v_str is not None for _, sv in nonseq):
        arity_violation('sns_update', 'non-sequential services declared but sns_update absent')
    res.append(dict(kind='encodes', functions={f'pycode.{mname}': core.src_sha(gen.src),
                                               f'andes.models.{mname} (declared strings)': m.get_md5()[:12]}))
    return res


def _ij_status(ent, d, timeout, tag):
    try:
        st, mdl, dt = eqsmt.check_neq(ent, S(d), timeout_ms=timeout)
    except Exception as e:
        return [dict(harness='equiv', name=tag, status='unknown', detail=repr(e)[:150])]
    if st == 'unsat':
        return [dict(harness='equiv', name=tag, status='unsat', secs=dt)]
    return [dict(harness='equiv', name=tag, status='unknown', secs=dt,
                 detail=f'init-Jacobian entry {st}: affects only convergence speed of the init Newton, '
                        'not the fixed point; not replayed')]


def h_safe_div(I):
    """the run-time helper the generated code imports (andes.thirdparty.npfunc.safe_div), executed on symbols:
    it must have the semantics the translation of generated code assumes: b == 0 -> 0, else a / b"""
    from andes.thirdparty.npfunc import safe_div
    from vlib.harness import AND, IMPLIES, NOT, EQ
    from vlib import pysym
    pysym.ENG.div_mode = 'fork'        # a division by zero inside the helper must not be assumed away
    a, b = I.arr('a0', 'a1'), I.arr('b0', 'b1')
    a0, b0 = a.copy(), b.copy()
    r = safe_div(a, b)
    return [(f'safe_div[{i}] = 0 if b == 0 else a / b',
             AND(IMPLIES(EQ(b0[i], 0, tol=0.0), EQ(r[i], 0)), IMPLIES(NOT(EQ(b0[i], 0, tol=0.0)), EQ(r[i] * b0[i], a0[i]))))
            for i in range(2)]


def regen_jobs():
    """generate twice: second generation into a private scratch dir; compare function by function"""
    a = core.pycode_dir()
    b = core.pycode_dir(fresh=True)
    return a, b


def compare_regen(job):
    mname, a, b, timeout = job
    ga = eqsmt.GenModule(os.path.join(a, mname + '.py'))
    gb = eqsmt.GenModule(os.path.join(b, mname + '.py'))
    res = []
    import ast
    if set(ga.funcs) != set(gb.funcs):
        res.append(dict(kind='violation', harness='regen', region=f'{mname}.functions',
                        desc=f'function sets differ: {sorted(set(ga.funcs) ^ set(gb.funcs))}', replay=dict(model=mname)))
        return res
    for k in ('f_args', 'g_args', 'j_args', 's_args', 'sns_args', 'ia_args', 'ii_args', 'ij_args', 'ijac', 'jjac',
              'vjac', 'j_names', 'init_seq', 'md5'):
        if ga.consts.get(k) != gb.consts.get(k):
            res.append(dict(kind='violation', harness='regen', region=f'{mname}.{k}',
                            desc=f'{k} differs between two generations of an unchanged model',
                            replay=dict(model=mname, first=str(ga.consts.get(k))[:300], second=str(gb.consts.get(k))[:300])))
    ss = modelsmt.system()
    m = ss.models[mname]
    for fn in ga.funcs:
        if ast.dump(ga.funcs[fn]) == ast.dump(gb.funcs[fn]):
            res.append(dict(harness='regen', name=f'{mname}.{fn}', status='unsat', secs=0, nontrivial=False,
                            detail=None))
            continue
        names = modelsmt.fresh_names(m)
        va, vb = ga.call(fn, names), gb.call(fn, names)
        fa = _flat(va); fb = _flat(vb)
        for i, (x, y) in enumerate(zip(fa, fb)):
            st, _, dt = eqsmt.check_neq(x, y, timeout_ms=timeout)
            res.append(dict(harness='regen', name=f'{mname}.{fn}[{i}]',
                            status='unsat' if st == 'unsat' else 'unknown', secs=dt,
                            detail=None if st == 'unsat' else f'regenerated code differs textually and solver says {st}'))
    return res


def _flat(v):
    if isinstance(v, list):
        out = []
        for e in v:
            out += _flat(e)
        return out
    return [v]


def main():
    ck = core.Check(PID, 'translation_validation',
                    'Every generated function loaded from disk is interpreted from its AST (positional binding '
                    'through the *_args lists) and proved equal, for all real argument values, to the declared '
                    'string it is delivered to; z3 QF_UFNRA, transcendental functions uninterpreted with true '
                    'lemma instances; every sat is replayed on the real generated function.')
    import andes.core.symprocessor as SP
    import andes.core.model.model as MM
    import andes.system as SY
    ck.encodes(SP.SymProcessor.generate_equations, SP.SymProcessor.generate_services, SP.SymProcessor.lambdify_init,
               SP.SymProcessor.generate_pycode, SP.SymProcessor._rename_func, MM.Model.refresh_inputs_arg,
               MM.Model.f_update, MM.Model.g_update, MM.Model.s_update, MM.Model.s_update_var, MM.Model.get_md5,
               SY.System._expand_pycode, SY.System.undill, SY.System._find_stale_models)
    thorough = core.tier() == 'thorough'
    timeout = TO_THOROUGH if thorough else TO_QUICK
    ck.bound(values='all reals (no bound); floats abstracted as reals', per_query_timeout_ms=timeout,
             models='all models of System().models')
    ck.assume('float arithmetic abstracted by real arithmetic; literals taken exactly from source text',
              'sin/cos/tan/exp/log/atan/atan2/pow are uninterpreted; lemma instances: parity, Pythagoras, k*pi/6 shifts, '
              'pow recurrence, sqrt definition (x>=0 assumed), |z|, exp(j*t)=cos t+j sin t',
              'definedness: denominators != 0, radicands >= 0 are assumed in each query')
    ck.out('float rounding', 'numba-jitted variants', 'hand-written v_numeric/g_numeric python callbacks',
           'init-Jacobian (_ij) entries are proved but a sat there is not replayed (affects speed only)')
    ss = modelsmt.system()
    names = list(ss.models.keys())
    t0 = time.time()
    res = core.pmap(check_model, [(n, timeout) for n in names])
    ck.merge(res)
    from vlib import harness as H
    import andes.thirdparty.npfunc as NPF
    ck.encodes(NPF.safe_div)
    ck.merge(H.run('npfunc.safe_div', h_safe_div))
    # regeneration twice
    a, b = regen_jobs()
    res2 = core.pmap(compare_regen, [(n, a, b, timeout) for n in names])
    ck.merge(res2)
    if thorough:
        from checks import c02_stale
        ck.merge(c02_stale.run(timeout))
    else:
        from checks import c02_stale
        ck.merge(c02_stale.run(timeout, models=c02_stale.QUICK_MODELS))
    for r in res[:400]:
        if r.get('kind', 'ob') == 'ob' and r['status'] == 'unsat' and len(ck.samples) < 8 and r.get('secs', 0) > 0.01:
            ck.sample({'obligation': r['name'], 'status': r['status'], 'secs': r['secs']})
    ck.extra['models'] = len(names)
    ck.finish()


if __name__ == '__main__':
    core.run_main(main)
