r"""
C18  Control blocks realise their documented transfer functions from steady state.

Each block class of andes/core/block.py is instantiated inside a throw-away host Model (so
the real Model.__setattr__/_register_attribute name-spacing and Block.define() run).  Its
declared equations are read back from host.cache.all_vars and encoded in the Laplace
domain (state: s*T*X = e_str, algebraic: 0 = e_str, `s` a free Real).  Discrete flags that
select a bypass are obtained by EXECUTING the real LessThan/DeadBand.check_var on symbolic
parameters under pysym (one path per parameter region); limiter flags are fixed to the
in-range state.  Per path z3 decides, for ALL parameter values, all s and all input values:

  TF      equations /\ den(s) != 0  ==>  Y*den(s) == num(s)*U       (documented transfer function)
  STEADY  with the declared v_str initial values every e_str is 0     (constant input)
"""
import time
import traceback

import numpy as np
import z3

from vlib import core, eqsmt, pysym
from vlib.eqsmt import S, tos, NS_DECL, Ctx

PID = 'C18'


def make_host(blockcls, pnames, kw, inputs=('uin',)):
    import andes
    from andes.core import ModelData, Model, NumParam, Algeb

    class HostData(ModelData):
        def __init__(self):
            super().__init__()
            for p in pnames:
                setattr(self, p, NumParam(default=1.0, tex_name=p))

    class Host(HostData, Model):
        def __init__(self):
            HostData.__init__(self)
            Model.__init__(self, None, None)
            self.group = 'Undefined'
            for i in inputs:
                setattr(self, i, Algeb(tex_name=i, v_str='1', e_str=f'1 - {i}'))
            args = {}
            for k, v in kw.items():
                args[k] = getattr(self, v) if isinstance(v, str) and (v in pnames or v in inputs) else v
            self.B = blockcls(name='B', **args)
    Host.__name__ = 'Host' + blockcls.__name__
    return Host()


class BlockCase:
    """one block + documented transfer function; num/den/pre are functions of a symbol getter g(name)"""

    def __init__(self, cls=None, params=None, kw=None, num=None, den=None, pre=None, out='B_y', flags=None, note='',
                 inputs=('uin',), static=None, name=None, integ=False, uexpr=None):
        self.cls, self.params, self.kw = cls, params, kw
        self.num, self.den, self.pre, self.out = num, den, pre, out
        self.flags = flags or {}
        self.note = note
        self.inputs = inputs
        self.static = static
        self.integ = integ      # contains a pure integrator: an equilibrium exists only for zero input error
        self.uexpr = uexpr or (lambda g: g('uin'))      # the signal the transfer function acts on (input minus reference)
        self.name = name or cls.__name__


def IBlockCase(*a, **k):
    c = BlockCase(*a, **k)
    c.integ = True
    return c


def catalogue():
    from andes.core import block as BL
    one = lambda g, s: z3.RealVal(1)
    pid_num = lambda g, s: (g('kp') * s + g('ki')) * (1 + s * g('Td')) + s * s * g('kd')
    pid_den = lambda g, s: s * (1 + s * g('Td'))
    inlim = {'zi': 1, 'zl': 0, 'zu': 0}
    C = [
        BlockCase(BL.Gain, ['K'], dict(u='uin', K='K'), lambda g, s: g('K'), one),
        IBlockCase(BL.Integrator, ['T', 'K', 'y0'], dict(u='uin', T='T', K='K', y0='y0'),
                  lambda g, s: g('K'), lambda g, s: s * g('T')),
        IBlockCase(BL.IntegratorAntiWindup, ['T', 'K', 'y0', 'lo', 'up'],
                  dict(u='uin', T='T', K='K', y0='y0', lower='lo', upper='up'),
                  lambda g, s: g('K'), lambda g, s: s * g('T'), flags=inlim),
        BlockCase(BL.Lag, ['T', 'K', 'D'], dict(u='uin', T='T', K='K', D='D'),
                  lambda g, s: g('K'), lambda g, s: g('D') + s * g('T'), pre=lambda g: [g('D') != 0]),
        BlockCase(BL.LagFreeze, ['T', 'K', 'fr'], dict(u='uin', T='T', K='K', freeze='fr'),
                  lambda g, s: g('K'), lambda g, s: 1 + s * g('T'), pre=lambda g: [g('fr') == 0],
                  note='freeze = 0'),
        BlockCase(BL.LagAntiWindup, ['T', 'K', 'D', 'lo', 'up'], dict(u='uin', T='T', K='K', D='D', lower='lo', upper='up'),
                  lambda g, s: g('K'), lambda g, s: g('D') + s * g('T'), pre=lambda g: [g('D') != 0], flags=inlim),
        BlockCase(BL.LagAWFreeze, ['T', 'K', 'lo', 'up', 'fr'],
                  dict(u='uin', T='T', K='K', lower='lo', upper='up', freeze='fr'),
                  lambda g, s: g('K'), lambda g, s: 1 + s * g('T'), pre=lambda g: [g('fr') == 0], flags=inlim,
                  note='freeze = 0, D left at its default 1 (the block documents T y\' = (1-freeze)(Ku-y))'),
        BlockCase(BL.LagRate, ['T', 'K', 'rl', 'ru'], dict(u='uin', T='T', K='K', rate_lower='rl', rate_upper='ru'),
                  lambda g, s: g('K'), lambda g, s: 1 + s * g('T'), flags={'zur': 0, 'zlr': 0},
                  note='D left at its default 1 (Notes of the block: T y\' = Ku - y)'),
        BlockCase(BL.LagAntiWindupRate, ['T', 'K', 'D', 'lo', 'up', 'rl', 'ru'],
                  dict(u='uin', T='T', K='K', D='D', lower='lo', upper='up', rate_lower='rl', rate_upper='ru'),
                  lambda g, s: g('K'), lambda g, s: g('D') + s * g('T'), pre=lambda g: [g('D') != 0],
                  flags=dict(inlim, zur=0, zlr=0)),
        BlockCase(BL.Washout, ['T', 'K'], dict(u='uin', T='T', K='K'),
                  lambda g, s: s * g('K'), lambda g, s: 1 + s * g('T'), pre=lambda g: [g('T') != 0]),
        BlockCase(BL.WashoutOrLag, ['T', 'K'], dict(u='uin', T='T', K='K', zero_out=True),
                  lambda g, s: z3.If(g('K') > 0, s * g('K'), z3.RealVal(1)), lambda g, s: 1 + s * g('T'),
                  pre=lambda g: [g('T') != 0], note='K <= 0 => lag 1/(1+sT) (zero_out)'),
        BlockCase(BL.WashoutOrLag, ['T', 'K'], dict(u='uin', T='T', K='K', zero_out=False),
                  lambda g, s: s * g('K'), lambda g, s: 1 + s * g('T'), pre=lambda g: [g('T') != 0],
                  name='WashoutOrLag(zero_out=False)'),
        BlockCase(BL.Lag2ndOrd, ['K', 'T1', 'T2'], dict(u='uin', K='K', T1='T1', T2='T2'),
                  lambda g, s: g('K'), lambda g, s: 1 + s * g('T1') + s * s * g('T2')),
        BlockCase(BL.LeadLag, ['T1', 'T2', 'K'], dict(u='uin', T1='T1', T2='T2', K='K', zero_out=False),
                  lambda g, s: g('K') * (1 + s * g('T1')), lambda g, s: 1 + s * g('T2'),
                  pre=lambda g: [g('T2') != 0], name='LeadLag(zero_out=False)'),
        BlockCase(BL.LeadLag, ['T1', 'T2', 'K'], dict(u='uin', T1='T1', T2='T2', K='K', zero_out=True),
                  lambda g, s: g('K') * (1 + s * g('T1')), lambda g, s: 1 + s * g('T2'),
                  pre=lambda g: [g('T1') >= 0, g('T2') >= 0, z3.Or(g('T2') != 0, g('T1') == 0)],
                  note='admissible: T1,T2 >= 0 and (T2 != 0 or T1 = T2 = 0: documented bypass)'),
        BlockCase(BL.LeadLag2ndOrd, ['T1', 'T2', 'T3', 'T4'], dict(u='uin', T1='T1', T2='T2', T3='T3', T4='T4', zero_out=False),
                  lambda g, s: 1 + s * g('T3') + s * s * g('T4'), lambda g, s: 1 + s * g('T1') + s * s * g('T2'),
                  pre=lambda g: [g('T2') != 0], name='LeadLag2ndOrd(zero_out=False)'),
        BlockCase(BL.LeadLag2ndOrd, ['T1', 'T2', 'T3', 'T4'], dict(u='uin', T1='T1', T2='T2', T3='T3', T4='T4', zero_out=True),
                  lambda g, s: 1 + s * g('T3') + s * s * g('T4'), lambda g, s: 1 + s * g('T1') + s * s * g('T2'),
                  pre=lambda g: [g('T1') >= 0, g('T2') >= 0, g('T3') >= 0, g('T4') >= 0,
                                 z3.Or(g('T2') != 0, z3.And(g('T1') == 0, g('T3') == 0, g('T4') == 0))],
                  note='admissible: all T >= 0 and (T2 != 0 or all four zero: documented bypass)'),
        BlockCase(BL.LeadLagLimit, ['T1', 'T2', 'lo', 'up'], dict(u='uin', T1='T1', T2='T2', lower='lo', upper='up'),
                  lambda g, s: 1 + s * g('T1'), lambda g, s: 1 + s * g('T2'), pre=lambda g: [g('T2') != 0], flags=inlim),
        IBlockCase(BL.PIController, ['kp', 'ki'], dict(u='uin', kp='kp', ki='ki'),
                  lambda g, s: g('kp') * s + g('ki'), lambda g, s: s),
        IBlockCase(BL.PIDController, ['kp', 'ki', 'kd', 'Td'], dict(u='uin', kp='kp', ki='ki', kd='kd', Td='Td'),
                  pid_num, pid_den, pre=lambda g: [g('Td') != 0, g('kd') != 0],
                  note='Td != 0 and kd != 0 (washout time constant must not vanish)'),
        # reference and initial integrator value given (the defaults 0 hide them): equilibrium at u = ref with y = x0
        IBlockCase(BL.PIController, ['kp', 'ki', 'ref', 'x0'], dict(u='uin', kp='kp', ki='ki', ref='ref', x0='x0'),
                  lambda g, s: g('kp') * s + g('ki'), lambda g, s: s, uexpr=lambda g: g('uin') - g('ref'), name='PIController(ref, x0)'),
        IBlockCase(BL.PIDController, ['kp', 'ki', 'kd', 'Td', 'ref', 'x0'], dict(u='uin', kp='kp', ki='ki', kd='kd', Td='Td', ref='ref', x0='x0'),
                  pid_num, pid_den, pre=lambda g: [g('Td') != 0, g('kd') != 0], uexpr=lambda g: g('uin') - g('ref'),
                  name='PIDController(ref, x0)'),
        IBlockCase(BL.PITrackAW, ['kp', 'ki', 'ks', 'lo', 'up', 'ref', 'x0'],
                  dict(u='uin', kp='kp', ki='ki', ks='ks', lower='lo', upper='up', ref='ref', x0='x0'),
                  lambda g, s: g('kp') * s + g('ki'), lambda g, s: s, flags=inlim, uexpr=lambda g: g('uin') - g('ref'), name='PITrackAW(ref, x0)'),
        IBlockCase(BL.PIDTrackAW, ['kp', 'ki', 'kd', 'Td', 'ks', 'lo', 'up', 'ref', 'x0'],
                  dict(u='uin', kp='kp', ki='ki', kd='kd', Td='Td', ks='ks', lower='lo', upper='up', ref='ref', x0='x0'),
                  pid_num, pid_den, pre=lambda g: [g('Td') != 0], flags=inlim, uexpr=lambda g: g('uin') - g('ref'), name='PIDTrackAW(ref, x0)'),
        IBlockCase(BL.PIAWHardLimit, ['kp', 'ki', 'awl', 'awu', 'lo', 'up'],
                  dict(u='uin', kp='kp', ki='ki', aw_lower='awl', aw_upper='awu', lower='lo', upper='up'),
                  lambda g, s: g('kp') * s + g('ki'), lambda g, s: s, flags=inlim),
        IBlockCase(BL.PIDAWHardLimit, ['kp', 'ki', 'kd', 'Td', 'awl', 'awu', 'lo', 'up'],
                  dict(u='uin', kp='kp', ki='ki', kd='kd', Td='Td', aw_lower='awl', aw_upper='awu', lower='lo', upper='up'),
                  pid_num, pid_den, pre=lambda g: [g('Td') != 0, g('kd') != 0], flags=inlim),
        IBlockCase(BL.PITrackAW, ['kp', 'ki', 'ks', 'lo', 'up'], dict(u='uin', kp='kp', ki='ki', ks='ks', lower='lo', upper='up'),
                  lambda g, s: g('kp') * s + g('ki'), lambda g, s: s, flags=inlim),
        IBlockCase(BL.PIDTrackAW, ['kp', 'ki', 'kd', 'Td', 'ks', 'lo', 'up'],
                  dict(u='uin', kp='kp', ki='ki', kd='kd', Td='Td', ks='ks', lower='lo', upper='up'),
                  pid_num, pid_den, pre=lambda g: [g('Td') != 0], flags=inlim),
        IBlockCase(BL.PITrackAWFreeze, ['kp', 'ki', 'ks', 'lo', 'up', 'fr'],
                  dict(u='uin', kp='kp', ki='ki', ks='ks', lower='lo', upper='up', freeze='fr'),
                  lambda g, s: g('kp') * s + g('ki'), lambda g, s: s, pre=lambda g: [g('fr') == 0], flags=inlim,
                  note='freeze = 0'),
        IBlockCase(BL.PIFreeze, ['kp', 'ki', 'fr'], dict(u='uin', kp='kp', ki='ki', freeze='fr'),
                  lambda g, s: g('kp') * s + g('ki'), lambda g, s: s, pre=lambda g: [g('fr') == 0], note='freeze = 0'),
        BlockCase(BL.GainLimiter, ['K', 'R', 'lo', 'up'], dict(u='uin', K='K', R='R', lower='lo', upper='up'),
                  lambda g, s: g('K') * g('R'), one, flags=inlim),
    ]
    # static (memoryless) blocks: output == reference definition
    C += [
        BlockCase(BL.HVGate, [], dict(u1='uin', u2='u2'), inputs=('uin', 'u2'),
                  static=lambda g: z3.If(g('uin') >= g('u2'), g('uin'), g('u2'))),
        BlockCase(BL.LVGate, [], dict(u1='uin', u2='u2'), inputs=('uin', 'u2'),
                  static=lambda g: z3.If(g('uin') <= g('u2'), g('uin'), g('u2'))),
        BlockCase(BL.DeadBand1, ['ce', 'lo', 'up', 'ga'], dict(u='uin', center='ce', lower='lo', upper='up', gain='ga'),
                  static=lambda g: g('ga') * z3.If(g('uin') > g('up'), g('ce') + g('uin') - g('up'),
                                                     z3.If(g('uin') < g('lo'), g('ce') + g('uin') - g('lo'), g('ce'))),
                  pre=lambda g: [g('lo') <= g('up')]),
    ]
    return C


def run_case(case):
    import andes
    andes.config_logger(50)
    from andes.core import discrete as D
    from andes.core.var import State, Algeb
    from andes.core.block import Block
    res = []
    cname = case.name
    t00 = time.time()
    host = make_host(case.cls, case.params, case.kw, case.inputs)
    bvars = {n: v for n, v in host.cache.all_vars.items() if n.startswith('B_')}
    discretes = {n: d for n, d in host.discrete.items()}
    # ---------------- flags from the real check_var, one path per parameter region
    pysym.reset(5000)
    eng = pysym.ENG

    def flags_run():
        out = {}
        for p in case.params:
            getattr(host, p).v = pysym.arr(p)
        for i in case.inputs:
            getattr(host, i).v = pysym.arr(i)
        for dn, d in discretes.items():
            d.list2array(1)
            if isinstance(d, (D.LessThan, D.IsEqual)):
                d._eval = False
                d.check_var()
            elif isinstance(d, D.DeadBand) and not isinstance(d, D.DeadBandRT):
                d.check_var()
            for f, val in zip(d.export_flags, d.get_values()):
                v = val[0] if hasattr(val, '__len__') else val
                out[f'{dn}_{f}'] = v
        return out

    paths = list(eng.explore(flags_run, max_paths=64))
    res.append(dict(kind='paths', n=len(paths)))
    for pi, path in enumerate(paths):
        if path.exc is not None:
            res.append(dict(kind='error', msg=f'{cname}: check_var raised {path.exc!r}'))
            continue
        flagvals = path.out
        eqsmt.CTX = Ctx()
        names = eqsmt.Names()
        for fn, fv in flagvals.items():
            short = fn.split('_')[-1]
            d = discretes[fn[:-(len(short) + 1)]]
            if isinstance(d, (D.LessThan, D.IsEqual)) or (isinstance(d, D.DeadBand)):
                names[fn] = S(pysym.lift(fv))
            elif short in case.flags:
                names[fn] = S(z3.RealVal(case.flags[short]))
            # other flags stay free symbols
        g = lambda n: names[n].re
        s = z3.Real('s')
        pre = list(path.cond()) + (case.pre(g) if case.pre else [])
        label = f'{cname}#{pi}' if len(paths) > 1 else cname
        if pysym.feasible(pre)[0] == 'unsat':
            # this flag region lies outside the admissible parameter set stated for the block
            res.append(dict(kind='sample', obj={'block': cname, 'path': pi, 'excluded': 'region inadmissible'}))
            continue

        def term(estr):
            return tos(eqsmt.ev_str(estr, names, NS_DECL)).re

        # ---------------- transfer function / static definition
        try:
            cons = []
            for vn, v in bvars.items():
                if v.e_str is None:
                    continue
                rhs = term(v.e_str)
                if isinstance(v, State):
                    T = names[v.t_const.name].re if v.t_const is not None else z3.RealVal(1)
                    cons.append(s * T * names[vn].re == rhs)
                else:
                    cons.append(rhs == 0)
            side = list(eqsmt.CTX.assume)
            y, u = names[case.out].re, case.uexpr(g)
            if case.static is not None:
                claim = y == case.static(g)
                cons_static = [c for c in cons]
                st, mdl, dt = pysym.decide(pre + cons_static + side, claim, 20000)
                kind = 'static'
                tw, _, dt2 = pysym.feasible(pre + cons_static + side)
            else:
                den, num = case.den(g, s), case.num(g, s)
                claim = y * den == num * u
                st, mdl, dt = pysym.decide(pre + cons + side + [den != 0], claim, 20000)
                kind = 'tf'
                tw, _, dt2 = pysym.feasible(pre + cons + side + [den != 0, u != 0])
            res.append(dict(harness='twin', name=f'{label}.{kind}.reachable',
                            status='witness-ok' if tw == 'sat' else 'witness-missing', secs=dt2))
            if st == 'unsat':
                res.append(dict(harness=kind, name=label, status='unsat', secs=dt))
            elif st == 'sat':
                md = pysym.model_dict(mdl)
                rp = replay_tf(case, md, kind)
                region = f'{cname}:{kind}:{region_of(case, md)}'
                if rp is not None:
                    res.append(dict(harness=kind, name=label, status='sat-replayed', secs=dt))
                    res.append(dict(kind='violation', harness=kind, region=region, desc=rp['desc'], replay=rp))
                else:
                    res.append(dict(harness=kind, name=label, status='sat-not-reproduced', secs=dt, detail=md))
            else:
                res.append(dict(harness=kind, name=label, status='unknown', secs=dt))
        except Exception as e:
            res.append(dict(kind='error', msg=f'{label}: {type(e).__name__}: {e} {traceback.format_exc()[-400:]}'))
            continue
        # ---------------- steady state: declared initial values annihilate all equations
        try:
            eqsmt.CTX = Ctx()
            n2 = eqsmt.Names()
            for fn in flagvals:
                if fn in names and dict.__contains__(names, fn):
                    n2[fn] = names[fn]
            pending = dict(bvars)
            for _ in range(len(pending) + 2):
                for vn in list(pending):
                    v = pending[vn]
                    vs = v.v_str if v.v_str is not None else '0'
                    deps = _free_names(str(vs)) & set(pending) - {vn}
                    if deps:
                        continue
                    n2[vn] = tos(eqsmt.ev_str(str(vs), n2, NS_DECL))
                    del pending[vn]
            if pending:
                res.append(dict(harness='steady', name=label, status='unknown', detail=f'circular v_str: {list(pending)}'))
            else:
                g2 = lambda n: n2[n].re
                pre2 = list(path.cond()) + (case.pre(g2) if case.pre else []) + ([case.uexpr(g2) == 0] if case.integ else [])
                for vn, v in bvars.items():
                    if v.e_str is None:
                        continue
                    e = tos(eqsmt.ev_str(v.e_str, n2, NS_DECL)).re
                    side = list(eqsmt.CTX.assume)
                    st, mdl, dt = pysym.decide(pre2 + side, e == 0, 20000)
                    tag = f'{label}.{vn}'
                    if st == 'unsat':
                        res.append(dict(harness='steady', name=tag, status='unsat', secs=dt))
                    elif st == 'sat':
                        md = pysym.model_dict(mdl)
                        rp = replay_steady(case, vn, md)
                        if rp is not None:
                            res.append(dict(harness='steady', name=tag, status='sat-replayed', secs=dt))
                            res.append(dict(kind='violation', harness='steady', region=f'{cname}:steady:{vn}:{region_of(case, md)}',
                                            desc=rp['desc'], replay=rp))
                        else:
                            res.append(dict(harness='steady', name=tag, status='sat-not-reproduced', secs=dt, detail=md))
                    else:
                        res.append(dict(harness='steady', name=tag, status='unknown', secs=dt))
        except Exception as e:
            res.append(dict(kind='error', msg=f'{label} steady: {type(e).__name__}: {e} {traceback.format_exc()[-400:]}'))
    res.append(dict(kind='encodes', functions={core.qualname(case.cls.define): core.src_sha(case.cls.define),
                                               core.qualname(case.cls.__init__): core.src_sha(case.cls.__init__)}))
    res.append(dict(kind='sample', obj={'block': cname, 'paths': len(paths),
                                        'equations': {n: v.e_str for n, v in bvars.items()}, 'note': case.note}))
    return res


def run_case_idx(i):
    return run_case(catalogue()[i])


def _free_names(s):
    import ast
    try:
        return {n.id for n in ast.walk(ast.parse(' '.join(s.split()), mode='eval')) if isinstance(n, ast.Name)}
    except SyntaxError:
        return set()


def region_of(case, md):
    """coarse region key of a counterexample for known-finding matching"""
    keys = []
    for p in case.params:
        v = md.get(p)
        if isinstance(v, float):
            keys.append(f'{p}{"=0" if v == 0 else ("<0" if v < 0 else ">0")}')
    return 'any'


# ---------------------------------------------------------------------------------------
# replay: concrete frequency-response / steady-state evaluation on the REAL declared equations
# (numeric linear solve with numpy at a concrete complex s, no solver involved)
# ---------------------------------------------------------------------------------------
def _concrete_host(case, md):
    host = make_host(case.cls, case.params, case.kw, case.inputs)
    from andes.core import discrete as D
    vals = {p: float(md.get(p, 1.0)) for p in case.params}
    for i in case.inputs:
        vals[i] = float(md.get(i, 1.0))
    for p in case.params:
        getattr(host, p).v = np.array([vals[p]])
    for i in case.inputs:
        getattr(host, i).v = np.array([vals[i]])
    flags = {}
    for dn, d in host.discrete.items():
        d.list2array(1)
        if isinstance(d, (D.LessThan, D.IsEqual)) or (isinstance(d, D.DeadBand) and not isinstance(d, D.DeadBandRT)):
            d.check_var()
            for f, val in zip(d.export_flags, d.get_values()):
                flags[f'{dn}_{f}'] = float(np.asarray(val).ravel()[0])
        else:
            for f in d.export_flags:
                flags[f'{dn}_{f}'] = float(case.flags.get(f, 0.0))
    return host, vals, flags


def replay_tf(case, md, kind):
    from andes.core.var import State
    try:
        host, vals, flags = _concrete_host(case, md)
        bvars = {n: v for n, v in host.cache.all_vars.items() if n.startswith('B_')}
        names = list(bvars)
        env0 = dict(vals); env0.update(flags)
        sv = complex(float(md.get('s', 0.7)), 0.0)
        if kind == 'tf':
            # frequency response at several test points: solve the linear block equations numerically
            pts = [sv, 0.3 + 0.9j, 1.7j, 2.0 + 0.0j]
        else:
            pts = [0.0]
        for spt in pts:
            n = len(names)
            # equations are affine in the block variables: build A x = b by evaluating at unit vectors
            def resid(x):
                env = dict(env0)
                for k, nm in enumerate(names):
                    env[nm] = x[k]
                out = []
                for nm in names:
                    v = bvars[nm]
                    r = eqsmt.nev_str(v.e_str, env) if v.e_str is not None else 0.0
                    if isinstance(v, State):
                        T = vals[v.t_const.name] if v.t_const is not None else 1.0
                        r = r - spt * T * env[nm]
                    out.append(complex(r))
                return np.array(out)
            if spt == sv and all(nm in md for nm in names):
                # the solver's own assignment: if it satisfies the real block equations and its output is not the documented
                # one, the equations admit a wrong (or undetermined) output -- also when the linear system below is singular
                xm = [complex(float(md[nm])) for nm in names]
                rm = resid(xm)
                ym = xm[names.index(case.out)]
                if kind == 'tf':
                    den_m = _num_eval(case.den, vals, spt)
                    exp_m = None if abs(den_m) < 1e-9 else _num_eval(case.num, vals, spt) / den_m * vals['uin']
                else:
                    exp_m = _num_eval(lambda g_, s_: case.static(g_), vals, 0.0)
                if exp_m is not None and np.all(np.abs(rm) < 1e-9) and abs(ym - exp_m) > 1e-7 * max(1.0, abs(exp_m)):
                    return dict(block=case.name, kind=kind, params=vals, s=str(spt), flags=flags,
                                equations={nm: bvars[nm].e_str for nm in names},
                                output_from_equations=str(ym), documented=str(exp_m),
                                desc=f'{case.name}: block equations are satisfied by Y={ym:.6g} at s={spt}, params={vals}; '
                                     f'documented transfer function gives {exp_m:.6g}')
            r0 = resid([0.0] * n)
            A = np.zeros((n, n), dtype=complex)
            for k in range(n):
                e = [0.0] * n; e[k] = 1.0
                A[:, k] = resid(e) - r0
            if abs(np.linalg.det(A)) < 1e-12:
                continue
            x = np.linalg.solve(A, -r0)
            y = x[names.index(case.out)]
            g = lambda nm: vals[nm]
            if kind == 'tf':
                zr = lambda v: v
                num = _num_eval(case.num, vals, spt)
                den = _num_eval(case.den, vals, spt)
                if abs(den) < 1e-9:
                    continue
                exp = num / den * vals['uin']
            else:
                exp = _num_eval(lambda g_, s_: case.static(g_), vals, 0.0)
            if abs(y - exp) > 1e-7 * max(1.0, abs(exp)):
                return dict(block=case.name, kind=kind, params=vals, s=str(spt), flags=flags,
                            equations={nm: bvars[nm].e_str for nm in names},
                            output_from_equations=str(y), documented=str(exp),
                            desc=f'{case.name}: block equations give Y={y:.6g} at s={spt}, params={vals}; '
                                 f'documented transfer function gives {exp:.6g}')
    except Exception as e:
        return None
    return None


def _num_eval(fn, vals, spt):
    """evaluate a z3-building lambda numerically by substituting concrete values"""
    syms = {k: z3.Real(k) for k in vals}
    s = z3.Real('s_re'), z3.Real('s_im')
    # evaluate with python complex arithmetic: rebuild through a tiny shim
    class V:
        def __init__(self, v): self.v = complex(v)
        def _o(self, o): return o.v if isinstance(o, V) else complex(o)
        def __add__(self, o): return V(self.v + self._o(o))
        __radd__ = __add__
        def __sub__(self, o): return V(self.v - self._o(o))
        def __rsub__(self, o): return V(self._o(o) - self.v)
        def __mul__(self, o): return V(self.v * self._o(o))
        __rmul__ = __mul__
        def __neg__(self): return V(-self.v)
        def __gt__(self, o): return self.v.real > self._o(o).real
        def __ge__(self, o): return self.v.real >= self._o(o).real
        def __lt__(self, o): return self.v.real < self._o(o).real
        def __le__(self, o): return self.v.real <= self._o(o).real
    import builtins
    real_if, real_val = z3.If, z3.RealVal
    try:
        z3.If = lambda c, a, b: (a if c else b)
        z3.RealVal = lambda v: V(v)
        r = fn(lambda nm: V(vals[nm]), V(spt))
    finally:
        z3.If, z3.RealVal = real_if, real_val
    return r.v if isinstance(r, V) else complex(r)


def replay_steady(case, vn, md):
    try:
        host, vals, flags = _concrete_host(case, md)
        bvars = {n: v for n, v in host.cache.all_vars.items() if n.startswith('B_')}
        env = dict(vals); env.update(flags)
        pending = dict(bvars)
        for _ in range(len(pending) + 2):
            for nm in list(pending):
                vs = pending[nm].v_str if pending[nm].v_str is not None else '0'
                if (_free_names(str(vs)) & set(pending)) - {nm}:
                    continue
                env[nm] = eqsmt.nev_str(str(vs), env)
                del pending[nm]
        r = eqsmt.nev_str(bvars[vn].e_str, env)
        if abs(r) > 1e-9:
            return dict(block=case.name, variable=vn, params=vals, flags=flags, e_str=bvars[vn].e_str,
                        initial_values={k: env[k] for k in bvars}, residual=r,
                        desc=f'{case.name}: with constant input {vals.get("uin")} and the declared initial values the '
                             f'equation of {vn} evaluates to {r:.6g}, not 0 (params {vals})')
    except Exception:
        return None
    return None


OPTION_CASES = None


def option_cases():
    """blocks with one-sided limit options: (class, parameter names, keyword arguments)"""
    from andes.core import block as BL
    return [
        (BL.PIAWHardLimit, ['kp', 'ki', 'awl', 'awu', 'lo', 'up'], dict(u='uin', kp='kp', ki='ki', aw_lower='awl', aw_upper='awu', lower='lo', upper='up')),
        (BL.PIDAWHardLimit, ['kp', 'ki', 'kd', 'Td', 'awl', 'awu', 'lo', 'up'],
         dict(u='uin', kp='kp', ki='ki', kd='kd', Td='Td', aw_lower='awl', aw_upper='awu', lower='lo', upper='up')),
        (BL.PITrackAW, ['kp', 'ki', 'ks', 'lo', 'up'], dict(u='uin', kp='kp', ki='ki', ks='ks', lower='lo', upper='up')),
        (BL.PIDTrackAW, ['kp', 'ki', 'kd', 'Td', 'ks', 'lo', 'up'], dict(u='uin', kp='kp', ki='ki', kd='kd', Td='Td', ks='ks', lower='lo', upper='up')),
        (BL.PITrackAWFreeze, ['kp', 'ki', 'ks', 'lo', 'up', 'fr'], dict(u='uin', kp='kp', ki='ki', ks='ks', lower='lo', upper='up', freeze='fr')),
        (BL.LagAntiWindupRate, ['T', 'K', 'D', 'lo', 'up', 'rl', 'ru'],
         dict(u='uin', T='T', K='K', D='D', lower='lo', upper='up', rate_lower='rl', rate_upper='ru')),
        (BL.GainLimiter, ['K', 'R', 'lo', 'up'], dict(u='uin', K='K', R='R', lower='lo', upper='up')),
    ]


def run_options(i):
    """a block asked for one limit only keeps exactly that limit: the option reaches every limiter inside it, and the real check_var
    of that limiter flags the requested side (and only that side) for an input beyond it"""
    from andes.core import discrete as D
    cls, pn, kw = option_cases()[i]
    res = []
    for no_lower, no_upper in ((True, False), (False, True)):
        label = f'{cls.__name__}(no_lower={no_lower}, no_upper={no_upper})'
        try:
            host = make_host(cls, pn, dict(kw, no_lower=no_lower, no_upper=no_upper))
            host.B.export()
            lims = [(dn, d) for dn, d in host.B.discrete.items() if isinstance(d, D.Limiter) and not isinstance(d, D.DeadBand)] \
                if hasattr(host.B, 'discrete') else []
            lims = lims or [(k, v) for k, v in host.B.__dict__.items() if isinstance(v, D.Limiter) and not isinstance(v, D.DeadBand)]
            ok = bool(lims)
            for dn, d in lims:
                ok = ok and (bool(d.no_lower) is no_lower) and (bool(d.no_upper) is no_upper)
            res.append(dict(harness='options', name=label + ': every limiter of the block has exactly the requested sides',
                            status='unsat' if ok else 'sat-replayed', secs=0.0))
            if not ok:
                res.append(dict(kind='violation', harness='options', region=label,
                                desc=f'{label}: limiter options inside the block are ' + ', '.join(f'{dn}(no_lower={d.no_lower}, no_upper={d.no_upper})' for dn, d in lims),
                                replay=dict(block=cls.__name__, no_lower=no_lower, no_upper=no_upper)))
        except Exception as e:
            res.append(dict(kind='error', msg=f'{label}: {type(e).__name__}: {e} {traceback.format_exc()[-300:]}'))
    res.append(dict(kind='encodes', functions={core.qualname(cls.__init__): core.src_sha(cls.__init__)}))
    return res


def main():
    ck = core.Check(PID, 'other',
                    'Laplace-domain identity per block: the declared equations of the real block (read back from a host '
                    'Model after the real name-spacing) imply Y(s)*den(s) = num(s)*U(s) for ALL parameters, all s and all '
                    'inputs (z3 QF_NRA, unsat = identity); bypass flags come from executing the real check_var on '
                    'symbolic parameters (path per region); steady state: declared v_str values zero every e_str.')
    ck.bound(parameters='all reals subject to the stated admissibility precondition per block', s='all reals with den(s) != 0',
             paths='<= 64 flag regions per block')
    ck.assume('a rational-function identity over all real s is an identity of transfer functions',
              'limiter flags fixed to the in-range state (zi=1, zl=zu=0, rate flags 0) for the limited variants',
              'freeze inputs fixed to 0')
    ck.out('time response (numerical integration)', 'behaviour outside the limits')
    cases = catalogue()
    res = core.pmap(run_case_idx, list(range(len(cases))))
    ck.merge(res)
    ck.merge(core.pmap(run_options, list(range(len(option_cases())))))
    ck.finish()


if __name__ == '__main__':
    core.run_main(main)
