r"""
C19  Cross-references between devices are resolved completely or rejected.

Real GroupBase / ModelData / System reference code executed under pysym with SYMBOLIC index
values (numbers whose equality the solver splits) and symbolic field values:
  * GroupBase.get_next_idx + add, sequences of 3 additions with proposed / missing / duplicate
    indices: registered indices are pairwise distinct, a free proposed index is kept, a direct
    duplicate registration raises;
  * GroupBase.find_idx and ModelData.find_idx over a group of two models: the result is the set
    of devices whose field equals the query, from whichever model holds them (all of them with
    allow_all, the first otherwise); a missing value raises unless allow_none;
  * System.collect_ref / set_backref: the back-reference list of a device holds exactly the
    devices that point to it, once each, at model and group level; a dangling reference is
    attributed to nobody;
  * DeviceFinder.find_or_add: a helper is created at most once per missing target and every
    device is linked to a helper measuring its own bus;
  * a required reference to a non-existent device is reported by set-up (error), never resolved
    to another device.
A CrossHair run on string indices (bounded) complements the numeric harness in the thorough tier.
"""
import os
import types

import numpy as np
import z3

from vlib import core, pysym, cases, chrun, harness as H
from vlib.harness import AND, OR, NOT, IFF, IMPLIES, EQ, LE, LT

PID = 'C19'
NS = types.SimpleNamespace
HERE = os.path.dirname(os.path.abspath(__file__))


def h_next_idx(pattern):
    """pattern: tuple of 'p' (proposed symbolic index) / 'n' (None) per addition"""
    def h(I):
        from andes.models.group import GroupBase
        log = pysym.rebind(GroupBase.get_next_idx, logger=NS(warning=lambda *a, **k: None))
        g = GroupBase()
        m = NS(class_name='M')
        got, props = [], []
        for k, kind in enumerate(pattern):
            p = I.real(f'proposed{k}') if kind == 'p' else None
            idx = log(g, idx=p, model_name='M')
            g.add(idx, m)
            got.append(idx)
            props.append(p)
        out = []

        def same(a, b):
            if isinstance(a, str) or isinstance(b, str):
                return (a == b) if (isinstance(a, str) and isinstance(b, str)) else False
            return EQ(a, b, tol=0.0)
        for i in range(len(got)):
            for j in range(i + 1, len(got)):
                out.append((f'indices of additions {i} and {j} are distinct', NOT(same(got[i], got[j]))))
        for k, p in enumerate(props):
            if p is not None:
                free = AND(*[NOT(same(p, got[j])) for j in range(k)]) if k else True
                out.append((f'a free proposed index is kept (addition {k})', IMPLIES(free, same(got[k], p))))
            else:
                out.append((f'a generated index is a string built from the model name (addition {k})',
                            isinstance(got[k], str) and got[k].startswith('M_')))
        out.append(('group counts every registered device', g.n == len(pattern)))
        return out
    return h


def h_dup_add(I):
    from andes.models.group import GroupBase
    g = GroupBase()
    m = NS(class_name='M')
    a, b = I.real('a'), I.real('b')
    g.add(a, m)
    raised = False
    try:
        g.add(b, m)
    except KeyError:
        raised = True
    return [('registering an index twice raises, registering a new one does not', IFF(raised, EQ(a, b, tol=0.0)))]


_SYS = {}


def gen_sys(first=10):
    """two PV and one Slack (one group, two models) with GENCLS referring to them; not set up"""
    if ('g', first) not in _SYS:
        ss = cases.build([1, 2, 3], lines=[(1, 2), (2, 3), (1, 3)], slacks=[dict(bus=1, idx=30)],
                         pvs=[dict(bus=2, idx=first), dict(bus=3, idx=20)], setup=False,
                         extra=[('GENCLS', dict(bus=2, gen=first, idx='A', M=5.0)), ('GENCLS', dict(bus=3, gen=20, idx='B', M=5.0)),
                                ('GENCLS', dict(bus=1, gen=30, idx='C', M=5.0))])
        _SYS[('g', first)] = ss
    return _SYS[('g', first)]


def h_find_idx(allow_all, allow_none):
    def h(I):
        ss = gen_sys()
        grp = ss.StaticGen
        # field values of the three devices (PV 10, PV 20, Slack 30) and the query are symbolic numbers
        fv = [I.real('bus_of_PV10'), I.real('bus_of_PV20'), I.real('bus_of_Slack30')]
        q = I.real('query')
        ss.PV.bus.v = [fv[0], fv[1]]
        ss.Slack.bus.v = [fv[2]]
        devs = [10, 20, 30]
        hit = [EQ(fv[k], q, tol=0.0) for k in range(3)]
        anyhit = OR(*hit)
        raised = False
        res = None
        try:
            res = grp.find_idx(keys='bus', values=[q], allow_none=allow_none, default=None, allow_all=allow_all)
        except IndexError:
            raised = True
        out = [('a missing value raises IndexError unless allow_none', IFF(raised, AND(NOT(anyhit), not allow_none)))]
        if not raised:
            r = res[0]
            if allow_all:
                r = list(r)
                for k, d in enumerate(devs):
                    out.append((f'device {d} is returned <=> its field equals the query (all models of the group)',
                                IFF(d in r, hit[k])))
                out.append(('no device is returned twice', len(set(x for x in r if x is not None)) == len([x for x in r if x is not None])))
                out.append(('not-found placeholder only when nothing matches', IFF(None in r, NOT(anyhit))))
            else:
                first = None
                for k, d in enumerate(devs):
                    out.append((f'single result is device {d} only if it matches', IMPLIES(r == d, hit[k])))
                out.append(('single result is a device <=> something matches', IFF(r is not None, anyhit)))
        # model level
        mres = ss.PV.find_idx(keys='bus', values=[q], allow_none=True, default=None, allow_all=True)[0]
        out.append(('ModelData.find_idx returns exactly the matching devices of the model',
                     AND(IFF(10 in mres, hit[0]), IFF(20 in mres, hit[1]))))
        return out
    return h


def h_backref(I, first=10):
    ss = gen_sys(first)
    ss.PV.bus.v = [2, 3]
    ss.Slack.bus.v = [1]
    gens = [I.real('gen_of_A'), I.real('gen_of_B'), I.real('gen_of_C')]
    ss.GENCLS.gen.v = list(gens)
    if I.symbolic:
        for obj in (ss.PV, ss.Slack, ss.StaticGen):
            obj.uid = pysym.SymDict(obj.uid)
        ss.StaticGen._idx2model = pysym.SymDict(ss.StaticGen._idx2model)
    import andes.core.model.model as MM
    orig = MM.Model.idx2uid
    if I.symbolic:
        # type dispatch `isinstance(idx, (float, int, ...))`: a symbolic index is a number
        MM.Model.idx2uid = pysym.rebind(orig, float=(float, pysym.SR))
    try:
        ss.collect_ref()
    finally:
        MM.Model.idx2uid = orig
    names = ['A', 'B', 'C']
    out = []
    for dev, (mdl, uid) in {first: (ss.PV, 0), 20: (ss.PV, 1), 30: (ss.Slack, 0)}.items():
        lst_m = mdl.SynGen.v[uid]
        guid = dict.__getitem__(ss.StaticGen.uid, dev)
        lst_g = ss.StaticGen.SynGen.v[guid]
        for k, nm in enumerate(names):
            points = EQ(gens[k], dev, tol=0.0)
            out.append((f'{nm} is in the back-reference list of static generator {dev} <=> it points to it (model level)',
                        IFF(lst_m.count(nm) == 1, points)))
            out.append((f'{nm} is in the back-reference list of static generator {dev} <=> it points to it (group level)',
                        IFF(lst_g.count(nm) == 1, points)))
            out.append((f'{nm} appears at most once for {dev}', lst_m.count(nm) <= 1 and lst_g.count(nm) <= 1))
    return out


def h_device_finder(I):
    """two frequency-dependent loads; each either names an existing BusFreq or leaves it to the finder"""
    from vlib import cases as CS
    ss = CS.build([1, 2], lines=[(1, 2)], slacks=[dict(bus=1, idx='S')], pqs=[dict(bus=2, idx='D', p0=0.2, q0=0.1), dict(bus=1, idx='E', p0=0.1, q0=0.0)],
                  setup=False, extra=[])
    # the existing meter carries a string index or the (falsy) number 0
    mid = 0 if bool(I.boolean('existing_meter_has_idx_0')) else 'BF2'
    ss.add('BusFreq', dict(bus=2, idx=mid))
    # three loads, each on bus 2 (which has a meter) or on bus 1 (which has none); a FLoad sits on the bus of its PQ
    on2 = [bool(I.boolean(f'load{k}_on_bus_2')) for k in range(3)]
    given0 = bool(I.boolean('load0_names_existing_meter')) and on2[0]
    for k in range(3):
        ss.add('FLoad', dict(idx=f'F{k}', pq='D' if on2[k] else 'E', busf=mid if (k == 0 and given0) else None))
    n0 = ss.BusFreq.n
    ss.collect_ref(); ss._list2array(); ss.link_ext_param(); ss.find_devices()      # the order System.setup uses
    found = ss.FLoad.busfreq.v
    out = []
    for k in range(3):
        bf = found[k]
        bus_of_bf = ss.BusFreq.bus.v[ss.BusFreq.idx2uid(bf)]
        out.append((f'load {k} is linked to a frequency meter on its own bus', bus_of_bf == ss.FLoad.bus.v[k]))
    need = 0 if all(on2) else 1                  # one helper for bus 1, however many loads share it
    out.append(('a helper is created at most once per missing target', ss.BusFreq.n - n0 == need))
    out.append(('no two meters sit on the same bus afterwards', len(set(ss.BusFreq.bus.v)) == ss.BusFreq.n))
    return out


def h_idx2model(I):
    """GroupBase.idx2model / Group.get with allow_none: only an omitted (None) reference may come back as 'nothing';
    a given reference to a device that does not exist is rejected"""
    from vlib import cases as CS
    ss = CS.build([1, 2], lines=[(1, 2)], slacks=[dict(bus=1, idx='S')], pqs=[dict(bus=2, idx=0, p0=0.2, q0=0.1), dict(bus=1, idx='E', p0=0.1, q0=0.0)],
                  setup=False)
    grp = ss.StaticLoad
    omitted = bool(I.boolean('reference_omitted'))
    exists = bool(I.boolean('reference_names_existing_device'))
    zero = bool(I.boolean('existing_device_has_idx_0'))
    allow = bool(I.boolean('allow_none'))
    ref = None if omitted else ((0 if zero else 'E') if exists else 'NO_SUCH_DEVICE')
    rejected, got = False, None
    try:
        got = grp.idx2model(ref, allow_none=allow)
    except KeyError:
        rejected = True
    if omitted:
        want_reject, want = (not allow), None
    elif exists:
        want_reject, want = False, ss.PQ
    else:
        want_reject, want = True, None
    return [('idx2model: an unknown given reference is rejected, an omitted one only with allow_none, a valid one resolved',
             rejected == want_reject and (rejected or got is want))]


def h_dataselect(I):
    """DataSelect: the optional index is used whenever it is given (also the index 0), the fallback otherwise"""
    from andes.core.service import DataSelect
    given = bool(I.boolean('optional_given'))
    as_nan = bool(I.boolean('missing_value_is_nan'))
    zero = bool(I.boolean('optional_is_idx_0'))
    text = bool(I.boolean('optional_is_a_string_idx'))
    opt = ('BX' if text else (0 if zero else 7)) if given else (float('nan') if as_nan else None)
    sel = DataSelect(NS(v=[opt, 5]), NS(v=[3, 4]), name='sel')
    out = list(sel.v)
    return [('DataSelect takes the optional index when given (0 included) and the fallback otherwise',
             out[0] == (opt if given else 3) and out[1] == 5)]


def h_dangling(I):
    from vlib import cases as CS
    missing = bool(I.boolean('load_refers_to_missing_bus'))
    ss = CS.build([1, 2], lines=[(1, 2)], slacks=[dict(bus=1, idx='S')], setup=False)
    ss.add('PQ', dict(idx='D', bus=7 if missing else 2, p0=0.1, q0=0.0))
    reported = False
    ok = None
    try:
        ok = ss.setup()
    except (KeyError, IndexError):
        reported = True
    return [('a required reference to a non-existent device is reported, a valid one is not',
             (reported or ok is False) == missing)]


def crosshair_jobs(timeout):
    path = os.path.join(HERE, 'ch', 'c19_idx.py')
    return [(path, n, l, timeout) for n, l in chrun.functions(path)]


def job(spec):
    import logging
    logging.getLogger('andes').setLevel(60)
    kind, arg = spec
    if kind == 'next':
        return H.run('GroupBase.get_next_idx/add sequence ' + ''.join(arg), h_next_idx(arg), region=lambda v, c: c.split(' (addition')[0])
    if kind == 'dup':
        return H.run('GroupBase.add duplicate', h_dup_add, region=lambda v, c: c)
    if kind == 'find':
        return H.run(f'find_idx[allow_all={arg[0]},allow_none={arg[1]}]', h_find_idx(*arg), region=lambda v, c: c.split('device ')[0])
    if kind == 'backref':
        return H.run(f'System.collect_ref / set_backref [first static generator has idx {arg}]', lambda I: h_backref(I, arg), max_paths=4000,
                     region=lambda v, c: c.split(' <=> ')[-1] if '<=>' in c else c)
    if kind == 'finder':
        return H.run('DeviceFinder.find_or_add', h_device_finder, region=lambda v, c: c)
    if kind == 'idx2model':
        return H.run('GroupBase.idx2model allow_none', h_idx2model, region=lambda v, c: c)
    if kind == 'dataselect':
        return H.run('DataSelect optional/fallback', h_dataselect, region=lambda v, c: c)
    if kind == 'dangling':
        return H.run('setup with a dangling required reference', h_dangling, region=lambda v, c: c)
    if kind == 'ch':
        name, verdict, msg, dt = chrun.job(arg)
        tag = f'CrossHair {name}'
        if name.startswith('twin_'):
            return [dict(harness='twin', name=tag, status='witness-ok' if verdict == 'counterexample' else 'witness-missing', secs=dt)]
        if verdict == 'confirmed':
            return [dict(harness='crosshair', name=tag, status='unsat', secs=dt)]
        if verdict == 'counterexample':
            return [dict(harness='crosshair', name=tag, status='sat-replayed', secs=dt, detail=msg),
                    dict(kind='violation', harness='crosshair', region=name, desc=f'GroupBase index handling: {msg}', replay=dict(message=msg))]
        return [dict(harness='crosshair', name=tag, status='unknown', secs=dt, detail=msg)]


def main():
    ck = core.Check(PID, 'other',
                    'Real index/reference code (GroupBase.get_next_idx/add/find_idx, ModelData.find_idx, System.collect_ref, set_backref, '
                    'DeviceFinder.find_or_add, setup) executed with symbolic index and field values; z3 splits which values coincide and '
                    'decides uniqueness, exact find results across the models of a group, exact back-reference lists, helper creation '
                    'and reporting of dangling references.')
    import andes.models.group as GR
    import andes.core.model.modeldata as MD
    import andes.core.model.model as MM
    import andes.system as SY
    import andes.core.service as SV
    ck.encodes(GR.GroupBase.get_next_idx, GR.GroupBase.add, GR.GroupBase.find_idx, GR.GroupBase.set_backref, MD.ModelData.find_idx,
               MM.Model.set_backref, SY.System.collect_ref, SY.System.add, SV.DeviceFinder.find_or_add, SY.System.find_devices)
    thorough = core.tier() == 'thorough'
    ck.bound(additions='3 per sequence', group='2 models, 3 devices', referrers='3', index_values='symbolic numbers (equality split by the solver); '
             'string indices by CrossHair with length <= 3 in the thorough tier')
    ck.stub('idx -> uid / idx -> model dictionaries answer look-ups with a symbolic key by equality split (pysym.SymDict)')
    ck.assume('symbolic indices are numbers; generated indices are strings and never equal a number')
    ck.out('DeviceFinder auto-creation beyond 2 devices', 'ExtVar.link_external failures are only logged by ANDES (not judged)')
    import itertools
    jobs = [('next', p) for p in itertools.product('pn', repeat=3)] + [('dup', 0)]
    jobs += [('find', (a, b)) for a in (True, False) for b in (True, False)] + [('backref', 10), ('backref', 0), ('finder', 0), ('dangling', 0), ('idx2model', 0), ('dataselect', 0)]
    if thorough:
        jobs += [('ch', j) for j in crosshair_jobs(240)]
    ck.merge(core.pmap(job, jobs))
    ck.sample({'find_idx': 'bus_of_PV10, bus_of_PV20, bus_of_Slack30, query symbolic', 'claim': 'device returned <=> field == query'})
    ck.finish()


if __name__ == '__main__':
    core.run_main(main)
