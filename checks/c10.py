r"""
C10  Variable addressing is a bijection and external links follow device indices.

(A) The real DAE.request_address is executed with a SYMBOLIC counter start and device count
(z3 integers; numpy.arange modelled as the set {lo + k*step < hi}) for every number of
variables <= 8 and both layouts: z3 (linear integer arithmetic, unbounded device count)
decides that the returned blocks are pairwise disjoint, cover exactly [begin, begin +
ndevice*nvar), each hold ndevice addresses, and that the counter advances to the end.
(B) Tag flow on real Systems built through the public API (integer / string indices, reversed
add order, a model with zero devices, the second addressing phase at TDS.init): every slot
of dae.x / dae.y is owned by exactly one internal variable, the stored name of a slot names
that variable of that device, and with every slot holding a distinct symbol the value read
through the model, through its group, through an ExtVar / ExtParam / ExtService of another
model and through the global vector is the same symbol (z3 equality of terms).
"""
import types

import numpy as np
import z3

from vlib import core, pysym, cases, harness as H
from vlib.harness import AND, OR, NOT, IFF, IMPLIES, EQ, LE, LT

PID = 'C10'
NS = types.SimpleNamespace


# ------------------------------------------------------------------ (A) request_address over integers
class SI:
    """symbolic integer (z3 Int) -- arithmetic only, no forking"""

    def __init__(self, e):
        self.e = e if z3.is_expr(e) else z3.IntVal(int(e))

    @staticmethod
    def of(x):
        return x.e if isinstance(x, SI) else z3.IntVal(int(x))

    def __add__(self, o):
        if isinstance(o, ARange): return NotImplemented
        return SI(self.e + SI.of(o))
    __radd__ = __add__
    def __sub__(self, o): return SI(self.e - SI.of(o))
    def __rsub__(self, o): return SI(SI.of(o) - self.e)
    def __mul__(self, o):
        if isinstance(o, ARange): return NotImplemented
        return SI(self.e * SI.of(o))
    __rmul__ = __mul__


class ARange:
    def __init__(self, lo, hi, step=1):
        self.lo, self.hi, self.step = SI.of(lo), SI.of(hi), SI.of(step)

    def mem(self, e):
        return z3.And(self.lo <= e, e < self.hi, (e - self.lo) % self.step == 0)

    # numpy semantics of  scalar + arange  /  arange + scalar : every element is shifted
    def __add__(self, k):
        r = ARange(0, 0)
        r.lo, r.hi, r.step = self.lo + SI.of(k), self.hi + SI.of(k), self.step
        return r
    __radd__ = __add__

    def __sub__(self, k):
        r = ARange(0, 0)
        r.lo, r.hi, r.step = self.lo - SI.of(k), self.hi - SI.of(k), self.step
        return r

    def count(self):
        return z3.If(self.hi > self.lo, (self.hi - self.lo + self.step - 1) / self.step, 0)

    # numpy semantics of  k * arange : the progression is scaled (k > 0 assumed by the callers' context: a device count)
    def __mul__(self, k):
        kk = SI.of(k)
        r = ARange(0, 0)
        n = self.count()
        r.lo, r.step = self.lo * kk, self.step * kk
        r.hi = r.lo + n * r.step
        return r
    __rmul__ = __mul__


class FakeNP:
    @staticmethod
    def arange(lo, hi=None, step=1):
        if hi is None:
            lo, hi = 0, lo
        return ARange(lo, hi, step)


def request_address_obligations(nvar, collate, timeout_ms=20000):
    import andes.variables.dae as DA
    f = DA.DAE.request_address
    g = dict(f.__globals__)
    g['np'] = FakeNP()
    fn = types.FunctionType(f.__code__, g, f.__name__, f.__defaults__, f.__closure__)
    begin, nd, e = z3.Ints('begin ndevice e')
    dae = NS(_array_and_counter={'x': 'n', 'y': 'm'}, n=SI(begin), m=SI(0))
    out = fn(dae, 'x', SI(nd), nvar, collate)
    pre = [begin >= 0, nd >= 0]
    res = []
    end = begin + nd * nvar
    tag = f'request_address[nvar={nvar},collate={collate}]'

    def decide(name, claim):
        s = z3.Solver()
        s.set('timeout', timeout_ms)
        s.add(*pre)
        s.add(z3.Not(claim))
        import time
        t = time.time()
        r = str(s.check())
        dt = time.time() - t
        if r == 'unsat':
            res.append(dict(harness='request_address', name=f'{tag}: {name}', status='unsat', secs=dt))
        elif r == 'sat':
            m = s.model()
            b0, n0 = m.eval(begin, model_completion=True).as_long(), m.eval(nd, model_completion=True).as_long()
            ok, detail = replay_request(nvar, collate, b0, n0)
            if not ok:
                res.append(dict(harness='request_address', name=f'{tag}: {name}', status='sat-replayed', secs=dt))
                res.append(dict(kind='violation', harness='request_address', region=f'{name} (collate={collate})',
                                desc=f'DAE.request_address(ndevice={n0}, nvar={nvar}, collate={collate}) from counter {b0}: {detail}',
                                replay=dict(nvar=nvar, collate=collate, begin=b0, ndevice=n0)))
            else:
                res.append(dict(harness='request_address', name=f'{tag}: {name}', status='sat-not-reproduced', secs=dt))
        else:
            res.append(dict(harness='request_address', name=f'{tag}: {name}', status='unknown', secs=dt))
    if len(out) != nvar or not all(isinstance(b, ARange) for b in out):
        res.append(dict(kind='error', msg=f'{tag}: unexpected return structure'))
        return res
    mems = [b.mem(e) for b in out]
    inside = z3.And(begin <= e, e < end)
    exactly_one = z3.PbEq([(m_, 1) for m_ in mems], 1)
    decide('every address of the requested range belongs to exactly one block', z3.Implies(inside, exactly_one))
    decide('no block reaches outside the requested range', z3.Implies(z3.Or(*mems), inside))
    decide('every block holds one address per device', z3.And(*[b.count() == nd for b in out]))
    decide('the counter advances to the end of the range', SI.of(dae.n) == end)
    # vacuity twin: a shifted block must be refuted
    s = z3.Solver(); s.add(*pre, nd > 0, z3.Not(z3.Implies(out[0].mem(e), z3.And(begin + 1 <= e, e < end))))
    res.append(dict(harness='twin', name=f'{tag}: shifted range refuted', status='witness-ok' if str(s.check()) == 'sat' else 'witness-missing'))
    return res


def replay_request(nvar, collate, begin, ndevice):
    """the real function on real numpy: blocks must partition [begin, end)"""
    import andes.variables.dae as DA
    dae = NS(_array_and_counter={'x': 'n', 'y': 'm'}, n=begin, m=0)
    out = DA.DAE.request_address(dae, 'x', ndevice, nvar, collate)
    allv = sorted(int(v) for b in out for v in b)
    want = list(range(begin, begin + ndevice * nvar))
    if allv != want:
        return False, f'blocks cover {allv[:12]}..., expected {want[:12]}...'
    if any(len(b) != ndevice for b in out):
        return False, 'a block does not hold one address per device'
    if dae.n != begin + ndevice * nvar:
        return False, f'counter is {dae.n}'
    return True, ''


# ------------------------------------------------------------------ (B) tag flow on real systems
_SYS = {}


def get_sys(name):
    if name in _SYS:
        return _SYS[name]
    if name in ('int', 'str-reversed'):
        sidx = name != 'int'
        T = (lambda x: f'B{x}') if sidx else (lambda x: x)
        ss = core.new_system()
        buses = [1, 2, 3] if sidx else [0, 1, 2]          # integer systems deliberately use the falsy index 0
        b1, b2, b3 = buses
        lines = [dict(idx='L12' if sidx else 0, bus1=T(b1), bus2=T(b2)), dict(idx='L23' if sidx else 1, bus1=T(b2), bus2=T(b3)),
                 dict(idx='L13' if sidx else 2, bus1=T(b1), bus2=T(b3))]
        items = [('Bus', dict(idx=T(b), Vn=110.0, name=f'bus{b}')) for b in buses] + [('Line', d) for d in lines] + \
                [('Slack', dict(idx='S' if sidx else 1, bus=T(b1))), ('PV', dict(idx='G' if sidx else 0, bus=T(b2), p0=0.3)),
                 ('PQ', dict(idx='D3' if sidx else 0, bus=T(b3), p0=0.4, q0=0.1)), ('PQ', dict(idx='D2' if sidx else 1, bus=T(b2), p0=0.1, q0=0.0)),
                 ('Shunt', dict(idx='C' if sidx else 0, bus=T(b3), b=0.05))]
        if sidx:
            # devices of each model are entered in reverse order (buses first: other devices refer to them)
            bus_items = [i for i in items if i[0] == 'Bus'][::-1]
            items = bus_items + [i for i in items if i[0] != 'Bus'][::-1]
        for m, d in items:
            ss.add(m, d)
        ss.setup()
        ss.PFlow.init()
    elif name == 'dynamic':
        ss = cases.build([1, 2, 3], lines=[dict(bus1=1, bus2=2, idx='L1'), dict(bus1=2, bus2=3, idx='L2'), dict(bus1=1, bus2=3, idx='L3')],
                         slacks=[dict(bus=1, idx='S1', p0=0.3)], pvs=[dict(bus=2, idx='G2', p0=0.3), dict(bus=3, idx='G3', p0=0.2)],
                         pqs=[dict(bus=3, idx='D3', p0=0.6, q0=0.2)], setup=False,
                         extra=[('GENCLS', dict(bus=3, gen='G3', idx='M3', M=5.0, D=1.0, xd1=0.3)),
                                ('GENROU', dict(bus=2, gen='G2', idx='M2', M=6.0, D=1.0)),
                                ('GENCLS', dict(bus=1, gen='S1', idx='M1', M=8.0, D=1.0, xd1=0.25)),
                                ('TGOV1', dict(syn='M2', idx='T2')), ('EXDC2', dict(syn='M2', idx='E2')),
                                ('TGOV1', dict(syn='M3', idx='T3'))])
        ss.setup()
        ss.PFlow.run()
        ss.TDS.config.no_tqdm = 1
        ss.TDS.init()
    # right after the real set-up / initialisation: the arrays every model's equations read must be its variable arrays
    ss._verif_stale_inputs = sorted((mn, vn) for mn, m in ss.models.items() if m.n for vn, var in m.cache.all_vars.items()
                                    if vn in m._input and m._input[vn] is not var.v)
    _SYS[name] = ss
    return ss


def h_tagflow(name):
    def h(I):
        from andes.core.var import ExtVar
        from andes.core.param import ExtParam
        from andes.core.service import ExtService
        ss = get_sys(name)
        dae = ss.dae
        models = ss.exist.pflow_tds if name == 'dynamic' else ss.PFlow.models
        out = [('after the real set-up and initialisation the equations of every model read that model\'s own variable arrays '
                '(also models that take part in the simulation without being initialised for it)', not ss._verif_stale_inputs)]
        # ---- ownership of slots
        for code, size in (('x', dae.n), ('y', dae.m)):
            owners = {}
            for mn, m in models.items():
                if m.n == 0:
                    continue
                vs = m.states if code == 'x' else m.algebs
                for vn, var in vs.items():
                    for k, a in enumerate(var.a):
                        owners.setdefault(int(a), []).append((mn, vn, m.idx.v[k]))
            out.append((f'every slot of dae.{code} is owned by exactly one internal variable',
                        sorted(owners) == list(range(size)) and all(len(v) == 1 for v in owners.values())))
            names = dae.x_name if code == 'x' else dae.y_name
            ok = True
            for a, ((mn, vn, idx),) in ((a, v) for a, v in owners.items() if len(v) == 1):
                nm = names[a]
                if not (nm.startswith(vn + ' ') and str(idx).replace('_', ' ') in nm):
                    ok = False
            out.append((f'the name stored for each slot of dae.{code} names that variable of that device', ok))
        # ---- distinct symbols in every slot, then read through all views
        dae.x = I.arr(*[f'X{i}' for i in range(dae.n)])
        dae.y = I.arr(*[f'Y{i}' for i in range(dae.m)])
        ss.set_var_arrays(models, inplace=True, alloc=False)
        for m in models.values():
            if m.n == 0:
                continue
            for var in m.cache.all_vars.values():
                if isinstance(var, ExtVar) and var.n > 0:
                    var.v = I.zeros(var.n)
        ss.vars_to_models()
        vec = {'x': dae.x, 'y': dae.y}
        import andes.models.group as GR
        gget = pysym.rebind(GR.GroupBase.get, np=pysym.NPXO) if I.symbolic else GR.GroupBase.get
        for mn, m in models.items():
            if m.n == 0:
                continue
            grp = ss.groups[m.group]
            for vn, var in list(m.states.items()) + list(m.algebs.items()):
                for k in range(m.n):
                    idx = m.idx.v[k]
                    tag = vec[var.v_code][int(var.a[k])]
                    out.append((f'{mn}.{vn}: model view, Model.get and the global vector agree',
                                AND(EQ(var.v[k], tag, tol=0.0), EQ(m.get(src=vn, idx=idx, attr='v'), tag, tol=0.0))))
                    if vn in grp.common_vars:
                        out.append((f'{mn}.{vn}: group view agrees', EQ(gget(grp, src=vn, idx=idx, attr='v'), tag, tol=0.0)))
                        out.append((f'{mn}.{vn}: group view with optional lookup (allow_none) agrees',
                                    EQ(gget(grp, src=vn, idx=idx, attr='v', allow_none=True, default=0.0), tag, tol=0.0)))
            for vn, var in m.cache.vars_ext.items():
                if var.n == 0 or var.indexer is None:
                    continue
                parent = ss.__dict__[var.model]
                idxs = var.indexer.v
                if len(idxs) and isinstance(idxs[0], (list, np.ndarray)):
                    idxs = [i for sub in idxs for i in sub]
                for k, src_idx in enumerate(idxs):
                    if src_idx is None:
                        continue
                    want = gget(parent, src=var.src, idx=src_idx, attr='v') if isinstance(parent, GR.GroupBase) else parent.get(src=var.src, idx=src_idx, attr='v')
                    out.append((f'{mn}.{vn} (external variable) resolves to the device named by its index field',
                                EQ(var.v[k], want, tol=0.0)))
        # ---- external parameters and services: tag the sources and re-link
        tagged = []
        for mn, m in models.items():
            if m.n == 0:
                continue
            for pn, p in m.params_ext.items():
                src_model = ss.__dict__[p.model]
                if p.indexer is None or len(p.indexer.v) == 0:
                    continue
                for smn, sm in (src_model.models.items() if hasattr(src_model, 'models') else [(p.model, src_model)]):
                    if sm.n and p.src in sm.__dict__ and hasattr(sm.__dict__[p.src], 'v') and \
                            isinstance(sm.__dict__[p.src].v, np.ndarray) and sm.__dict__[p.src].v.dtype.kind in 'fO':
                        inst = sm.__dict__[p.src]
                        if id(inst) not in [id(t) for t in tagged]:
                            inst.v = I.arr(*[f'P_{smn}_{p.src}_{k}' for k in range(sm.n)])
                            tagged.append(inst)
        _orig_get = GR.GroupBase.get
        if I.symbolic:
            GR.GroupBase.get = gget
        try:
            ss.link_ext_param(models)
        finally:
            GR.GroupBase.get = _orig_get
        for mn, m in models.items():
            if m.n == 0:
                continue
            for pn, p in m.params_ext.items():
                if p.indexer is None or len(p.indexer.v) == 0 or getattr(p, 'vtype', float) is str:
                    continue
                src_model = ss.__dict__[p.model]
                for k, src_idx in enumerate(p.indexer.v):
                    if src_idx is None:
                        continue
                    try:
                        want = gget(src_model, src=p.src, idx=src_idx, attr='v') if isinstance(src_model, GR.GroupBase) else src_model.get(src=p.src, idx=src_idx, attr='v')
                    except Exception:
                        continue
                    if isinstance(want, str) or isinstance(p.v[k], str):
                        out.append((f'{mn}.{pn} (external parameter) is the value of the device named by its index field',
                                    p.v[k] == want))
                    else:
                        out.append((f'{mn}.{pn} (external parameter) is the value of the device named by its index field',
                                    EQ(p.v[k], want, tol=0.0)))
        return out
    return h


def job(spec):
    kind, arg = spec
    if kind == 'ra':
        return request_address_obligations(*arg)
    return H.run(f'tag flow [{arg}]', h_tagflow(arg), timeout_ms=10000, region=lambda v, c: c.split(':')[0])


def main():
    ck = core.Check(PID, 'other',
                    'Real DAE.request_address executed on z3 integers (symbolic counter and device count, numpy.arange as an '
                    'arithmetic set): blocks partition the requested range for every nvar <= 8, both layouts, unbounded device '
                    'count (LIA). Tag flow on real Systems: slot ownership, slot names, and equality of the symbol read through '
                    'model, group, external variable/parameter and global vector, after both addressing phases.')
    import andes.variables.dae as DA
    import andes.system as SY
    import andes.core.var as VA
    import andes.core.param as PA
    import andes.core.model.model as MM
    import andes.models.group as GR
    ck.encodes(DA.DAE.request_address, SY.System.set_address, SY.System.set_dae_names, SY.System.set_var_arrays, SY.System.vars_to_models,
               SY.System.link_ext_param, VA.ExtVar.link_external, PA.ExtParam.link_external, MM.Model.get, MM.Model.idx2uid, GR.GroupBase.get)
    thorough = core.tier() == 'thorough'
    nmax = 12 if thorough else 8
    ck.bound(nvar=f'1..{nmax}', ndevice='all integers >= 0', counter_start='all integers >= 0',
             systems='3-bus int idx; 3-bus string idx reversed order; 3-bus dynamic (GENCLS x2, GENROU, TGOV1 x2, EXDC2) after TDS.init')
    ck.stub('GroupBase.get allocates its result with np.zeros: object dtype in exploration so it can hold symbols', 'numpy.arange(lo, hi, step) -> the set {e: lo <= e < hi, (e-lo) mod step = 0} (its documented meaning for integers)')
    ck.assume('tag flow is structural: the solver only decides equality of distinct symbols')
    ck.out('systems beyond the catalogue', 'collated storage is exercised only in request_address (no shipped model sets collate)')
    jobs = [('ra', (n, c)) for n in range(1, nmax + 1) for c in (False, True)] + [('tag', n) for n in ('int', 'str-reversed', 'dynamic')]
    ck.merge(core.pmap(job, jobs))
    ck.sample({'request_address': 'nvar=3, collate=True, begin, ndevice symbolic', 'claim': 'begin <= e < begin+3*ndevice  =>  e in exactly one block'})
    ck.finish()


if __name__ == '__main__':
    core.run_main(main)
