r"""
C14  Resumed and snapshot-restored simulations equal the uninterrupted run  (partial).

Decided on the time-grid state machine of the real TDS code (see C06 for the loop itself):
  * EXIT STATE: when the real loop test of TDS.run becomes false without a bust, the state is
    E: t = tf, every switch time <= tf has been dispatched, the epilogue reports success.
  * RESUME: from any state in E with a later end time, the real TDS.init_resume (-> calc_h
    (resume=True), _calc_h_first) yields a state that satisfies the loop invariant of C06 with
    the pointer unmoved, a positive first step that neither exceeds the fixed step nor passes the
    next pending event or the new end time -- so resuming is indistinguishable from one more
    loop iteration and, by the C06 induction, events are neither lost nor repeated and stamps
    keep increasing across the boundary.  Interruption exactly at, just before and just after an
    event are instances of the symbolic pre-state.
  * BOUNDED CROSS-CHECK: fixed step, accepted steps only: a run split at tf1 and an
    unsplit run to tf dispatch the same events and end at the same time (<= 6 iterations).
  * System.reset() + setup re-creates the same addresses and names as the first set-up.
Not applicable to a solver: dill snapshots, view-array repair after unpickling, continuation in
another process.
"""
import types

import numpy as np
import z3

from vlib import core, pysym, cases, harness as H
from vlib.harness import AND, OR, NOT, IFF, IMPLIES, EQ, LE, LT
from checks import c06

PID = 'C14'
NS = types.SimpleNamespace


def h_exit_state(idx):
    def h(I):
        body, test, epi, cuts = c06.cut_loop()
        tds, system, cfg, S, stored, fired, conv = c06.make_tds(I, idx, 3)
        go = test(tds, system, system.dae, cfg)
        I.assume(NOT(go))
        ok = epi(tds, system, system.dae, cfg)
        t = system.dae.t
        out = [('exit without bust: the run stands exactly at the end time', EQ(t, cfg.tf, tol=0.0)),
               ('exit without bust: success is reported', bool(ok) is True)]
        for k in range(3):
            out.append((f'exit without bust: switch time {k} is dispatched <=> it is not later than the end time',
                        IFF(k < idx, LE(S[k], cfg.tf))))
        return out
    return h


def h_resume(idx):
    def h(I):
        from andes.routines.tds import TDS
        tds, system, cfg, S, stored, fired, conv = c06.make_tds(I, idx, 3, base_case=True)
        # state E of a finished run that ended at t_old (every event <= t_old dispatched), then the user raised tf
        t_old = I.real('t_old')
        I.assume(LE(0, t_old)); I.assume(LT(t_old, cfg.tf))
        if idx > 0:
            I.assume(LE(S[idx - 1], t_old))
        if idx < 3:
            I.assume(LT(t_old, S[idx]))
        system.dae.t = t_old
        system.dae.kcount = 7          # accepted steps so far (decides which steps are stored when save_every > 1)
        tds.h = (pysym.SR(z3.RealVal(0)) if I.symbolic else np.float64(0.0))
        tds.solver = None
        g2 = dict(TDS.init_resume.__globals__); g2['logger'] = c06._Log()
        init_resume = types.FunctionType(TDS.init_resume.__code__, g2)
        init_resume(tds)
        out = [('resuming keeps the grid invariant (no pending event or end time is passed)', c06.inv_after(tds, system, S, tds._switch_idx, t_old, 3)),
               ('resuming moves no event pointer: nothing is lost or repeated', tds._switch_idx == idx and len(fired) == 0),
               ('resuming makes progress: the time axis keeps increasing', LT(t_old, system.dae.t)),
               ('resuming does not advance the step counter: the same steps of the grid are stored as in an uninterrupted run', system.dae.kcount == 7),
               ('the first step after resuming respects the fixed step size', IMPLIES(cfg.fixt, LE(tds.h, cfg.tstep)))]
        return out
    return h


def run_segment(I, tds, system, cfg, body, test, limit=6):
    n = 0
    while bool(test(tds, system, system.dae, cfg)):
        n += 1
        if n > limit:
            raise pysym.Abort('more than %d loop iterations' % limit)
        body(tds, system, system.dae, cfg)
    return n


def h_split_vs_unsplit(I):
    """fixed step, every step accepted, one event; run to tf directly and via tf1"""
    from andes.routines.tds import TDS
    body, test, epi, cuts = c06.cut_loop()
    res = []
    tf1 = I.real('tf1')
    for split in (False, True):
        tds, system, cfg, S, stored, fired, conv = c06.make_tds(I, 0, 1, base_case=True, conv_fix=True, fixt_fix=True)
        cfg.shrinkt = True

        def itm_step(tds=tds):
            tds.converged, tds.niter = True, 3        # every step accepted after 3 Newton iterations
            return True
        tds.itm_step = itm_step
        # concrete step and end time keep the exploration small; the split time and the event time stay symbolic
        cfg.tstep = np.float64(0.1) if not I.symbolic else pysym.SR(pysym.ratval('1/10'))
        cfg.tf = np.float64(0.25) if not I.symbolic else pysym.SR(pysym.ratval('1/4'))
        tds.deltatmax = cfg.tstep
        tds.deltatmin = np.float64(0.01) if not I.symbolic else pysym.SR(pysym.ratval('1/100'))
        I.assume(LT(0, tf1)); I.assume(LT(tf1, cfg.tf)); I.assume(LT(0, S[0]))
        tf_final = cfg.tf
        system.dae.t = (pysym.SR(z3.RealVal(0)) if I.symbolic else np.float64(0.0))
        tds.niter = 0
        tds.solver = None
        tds.deltat = cfg.tstep
        if split:
            cfg.tf = tf1
        tds.calc_h()
        system.dae.t = system.dae.t + tds.h
        tds.niter = 3
        run_segment(I, tds, system, cfg, body, test)
        if split:
            cfg.tf = tf_final
            tds.calc_h(resume=True)
            system.dae.t = system.dae.t + tds.h
            run_segment(I, tds, system, cfg, body, test)
        res.append((system.dae.t, [f[1] for f in fired], list(stored), tds.busted))
    (t_a, fired_a, st_a, b_a), (t_b, fired_b, st_b, b_b) = res
    out = [('split and unsplit runs end at the same time', EQ(t_a, t_b, tol=0.0)),
           ('split and unsplit runs dispatch the same number of events', len(fired_a) == len(fired_b))]
    if len(fired_a) == len(fired_b):
        out.append(('split and unsplit runs dispatch the events at the same times', AND(*[EQ(x, y, tol=0.0) for x, y in zip(fired_a, fired_b)]) if fired_a else True))
    out.append(('stored stamps of the split run are strictly increasing', AND(*[LT(a, b) for a, b in zip(st_b[:-1], st_b[1:])]) if len(st_b) > 1 else True))
    return out


def h_reset(I):
    ss = cases.build([1, 2, 3], lines=[(1, 2), (2, 3), (1, 3)], slacks=[dict(bus=1, idx='S')], pvs=[dict(bus=2, idx='G', p0=0.3)],
                     pqs=[dict(bus=3, idx='D', p0=0.4, q0=0.1)], shunts=[dict(bus=3, idx='C', b=0.05, Sn=40.0, Vn=100.0)])
    before = {(mn, vn): list(map(int, v.a)) for mn, m in ss.models.items() if m.n for vn, v in m.cache.all_vars.items()}
    par0 = {(mn, pn): (np.array(p.vin, dtype=float), np.array(p.v, dtype=float)) for mn, m in ss.models.items() if m.n
            for pn, p in m.num_params.items() if p.vin is not None and getattr(p, 'vtype', float) is float}
    names = (list(ss.dae.x_name), list(ss.dae.y_name))
    ss.PFlow.run()
    y1 = np.array(ss.dae.y)
    ss.reset()
    after = {(mn, vn): list(map(int, v.a)) for mn, m in ss.models.items() if m.n for vn, v in m.cache.all_vars.items()}
    ss.PFlow.run()
    bad = [k for k, (vin0, v0) in par0.items()
           if not (np.allclose(ss.models[k[0]].num_params[k[1]].vin, vin0, rtol=0, atol=0, equal_nan=True)
                   and np.allclose(ss.models[k[0]].num_params[k[1]].v, v0, rtol=1e-12, atol=0, equal_nan=True))]
    return [('reset + set-up leaves every parameter with its input value and its converted value (devices on their own base included)', not bad),
            ('reset + set-up gives every variable the same addresses', before == after),
            ('reset + set-up gives every slot the same name', names == (list(ss.dae.x_name), list(ss.dae.y_name))),
            ('re-running the power flow after reset reproduces the solution', bool(np.max(np.abs(np.array(ss.dae.y) - y1)) < 1e-9))]


def h_fix_view(I):
    """what load_ss does after unpickling: every variable array of every model must be re-attached to the DAE arrays"""
    import andes.system as SY
    ss = cases.build([1, 2, 3], lines=[(1, 2), (2, 3), (1, 3)], slacks=[dict(bus=1, idx='S')], pvs=[dict(bus=2, idx='G', p0=0.3)],
                     pqs=[dict(bus=3, idx='D', p0=0.4, q0=0.1)], setup=False,
                     extra=[('GENCLS', dict(bus=2, gen='G', idx='M2', M=6.0, D=1.0, xd1=0.3)), ('GENCLS', dict(bus=1, gen='S', idx='M1', M=8.0, D=1.0, xd1=0.25)),
                            ('TGOV1', dict(syn='M2', idx='T2'))])
    ss.setup()
    ss.PFlow.run()
    ss.TDS.config.no_tqdm = 1
    ss.TDS.init()
    dae = ss.dae
    # unpickling turns views into private copies
    for m in ss.models.values():
        if m.n:
            for var in m.cache.all_vars.values():
                var.v = np.array(var.v)
                var.e = np.array(var.e)
    dae.x, dae.y = I.to_obj(np.array(dae.x)), I.to_obj(np.array(dae.y))
    dae.f, dae.g = I.to_obj(np.array(dae.f)), I.to_obj(np.array(dae.g))
    SY.fix_view_arrays(ss)
    tx, ty = I.arr(*[f'x{i}' for i in range(dae.n)]), I.arr(*[f'y{i}' for i in range(dae.m)])
    dae.x[:] = tx
    dae.y[:] = ty
    out = []
    for mn, m in ss.models.items():
        if not m.n:
            continue
        for vn, var in list(m.states.items()) + list(m.algebs.items()):     # external variables are copies by design (vars_to_models)
            a = [int(k) for k in var.a]
            if not a or a != list(range(a[0], a[0] + len(a))):
                continue                      # scattered addresses are copied by vars_to_models, not viewed
            src = tx if var.v_code == 'x' else ty
            out.append((f'after re-attaching, {mn}.{vn} shows the values of the DAE array it belongs to',
                        len(var.v) == len(a) and AND(*[EQ(var.v[k], src[a[k]], tol=0.0) for k in range(len(a))])))
            out.append((f'the equation inputs of {mn} read the re-attached array of {vn}', m._input[vn] is var.v))
    return out


def h_snapshot_state(I):
    """save_ss / load_ss with the serialiser replaced by the identity: apart from re-attaching arrays, taking and loading a
    snapshot changes nothing in the state of the routines (flags, pointers, step sizes, configuration)"""
    import andes.utils.snapshot as SN
    ss = cases.build([1, 2, 3], lines=[dict(bus1=1, bus2=2, idx='L1'), dict(bus1=2, bus2=3, idx='L2'), dict(bus1=1, bus2=3, idx='L3')],
                     slacks=[dict(bus=1, idx='S')], pvs=[dict(bus=2, idx='G', p0=0.3)],
                     pqs=[dict(bus=3, idx='D', p0=0.4, q0=0.1)], setup=False,
                     extra=[('GENCLS', dict(bus=2, gen='G', idx='M2', M=6.0, D=1.0, xd1=0.3)), ('GENCLS', dict(bus=1, gen='S', idx='M1', M=8.0, D=1.0, xd1=0.25)),
                            ('Toggle', dict(model='Line', dev='L3', t=0.05))])
    ss.setup()
    ss.PFlow.run()
    ss.TDS.config.no_tqdm = 1
    ss.TDS.config.tf = 0.04
    ss.TDS.run()

    def state():
        out = {}
        for rn, r in ss.routines.items():
            for k, v in r.__dict__.items():
                if isinstance(v, (bool, int, float, str, type(None), np.integer, np.floating)):
                    out[(rn, k)] = v
            out[(rn, 'config')] = dict(r.config.as_dict(refresh=True))
        out[('dae', 't')] = float(ss.dae.t)
        out[('dae', 'kcount')] = ss.dae.kcount
        return out
    before = state()
    box = {}
    save = pysym.rebind(SN.save_ss, dill=NS(dump=lambda system, f, recurse=True: box.update(system=system)))
    load = pysym.rebind(SN.load_ss, dill=NS(load=lambda f: box['system']), import_pycode=lambda: None)
    fake = NS(write=lambda b: None, read=lambda: b'')
    save(fake, ss)
    s2 = load(fake)
    after = state()
    diff = sorted(str(k) for k in before if k not in after or after[k] != before[k] and not (before[k] != before[k]))
    return [('taking and loading a snapshot returns the system', s2 is ss),
            ('taking and loading a snapshot leaves the state of every routine as it was (flags, pointers, step sizes, configuration)', not diff)]


def job(spec):
    import logging
    logging.getLogger('andes').setLevel(60)
    kind, arg = spec
    if kind == 'exit':
        return H.run(f'TDS.run exit state [pointer={arg}]', h_exit_state(arg), region=lambda v, c: c.split(': ')[-1])
    if kind == 'resume':
        return H.run(f'TDS.init_resume from an exit state [pointer={arg}]', h_resume(arg), timeout_ms=20000, region=lambda v, c: c)
    if kind == 'split':
        return H.run('split vs unsplit run (fixed step 0.1, tf = 0.25, one event)', h_split_vs_unsplit, timeout_ms=30000, max_paths=3000, region=lambda v, c: c)
    if kind == 'snap':
        return H.run('save_ss / load_ss around an identity serialiser', h_snapshot_state, region=lambda v, c: c)
    if kind == 'fixview':
        return H.run('fix_view_arrays after detaching every array', h_fix_view, region=lambda v, c: c.split(', ')[-1] if ', ' in c else c)
    if kind == 'reset':
        return H.run('System.reset + setup', h_reset, region=lambda v, c: c)


def main():
    ck = core.Check(PID, 'model_checking',
                    'PARTIAL. Exit state of the real TDS.run loop (t = tf, every event <= tf dispatched, success) and the real init_resume '
                    'from every such state with a later end time: the C06 loop invariant holds again with the pointer unmoved, progress > 0, '
                    'fixed step respected -- resuming is one more loop iteration, so by the C06 induction events are neither lost nor '
                    'repeated across the boundary; bounded split-vs-unsplit cross-check; System.reset re-addressing.')
    import andes.routines.tds as TD
    import andes.system as SY
    ck.encodes(TD.TDS.run, TD.TDS.init_resume, TD.TDS.calc_h, TD.TDS._calc_h_first, TD.TDS.do_switch, SY.System.reset, SY.System.setup,
               SY.fix_view_arrays, SY.System.set_var_arrays)
    thorough = core.tier() == 'thorough'
    ck.bound(pending_events=3, resume='one call from an arbitrary exit state', cross_check='tstep = 0.1, tf = 0.25, split time and event time symbolic, <= 6 iterations per segment, <= 3000 paths')
    ck.stub('loop-body stubs of C06 (itm_step as success flag, store/switch_action recorders, progress bar cut)')
    ck.assume('time is a real number', 'the C06 inductive step (checked by C06) carries the invariant through the loop')
    ck.out('the dill serialisation itself and continuation in another process -- object-graph serialisation is not encodable (the repair step fix_view_arrays IS checked: arrays detached as unpickling leaves them)',
           'trajectory equality up to discretisation error (numerics)')
    jobs = [('exit', k) for k in range(4)] + [('resume', k) for k in range(4)] + [('reset', 0), ('split', 0), ('fixview', 0), ('snap', 0)]
    res = core.pmap(job, jobs)
    ck.merge(res)
    ck.extra['states'] = ck.paths
    ck.extra['transitions'] = ck.paths
    ck.extra['traces_validated_against_impl'] = sum(1 for o in ck.obs if o[2] in ('sat-replayed',))
    ck.sample({'pre-state': 'exit state E with symbolic t_old, s0<s1<s2, pointer, step-size state; new tf > t_old', 'transition': 'TDS.init_resume'})
    ck.finish()


if __name__ == '__main__':
    core.run_main(main)
