"""
C03  Jacobians are the exact residual derivatives, stored at the right addresses.

Symbolic level (all models): each generated Jacobian entry  ==  d(declared e_str)/d(var)
computed by the structural differentiator of vlib.eqsmt (independent of sympy); the stored
triplet pattern contains every (equation, variable) pair whose derivative is not identically
zero (solver: derivative != 0 satisfiable => must be in ijac/jjac); constant triplets hold the
declared diag_eps.  Assembled level (small real Systems, symbolic operating point): see
checks/c03_asm.py.
"""
import os
import random
import time

import z3

from vlib import core, eqsmt, modelsmt
from vlib.eqsmt import S, tos

PID = 'C03'


def _replay_entry(m, gen, jname, k, alist, names, mdl, eqname, varname, e_str, d_term):
    """replay: real generated jacobian entry vs central finite difference of the declared string"""
    cx = modelsmt.complex_services(m)
    rng = random.Random(core.seed() + 17)
    envs = []
    try:
        envs.append(eqsmt.model_env(mdl, names))
    except Exception:
        pass
    fname = f'{jname}_update'
    for t in range(40):
        env = envs[t] if t < len(envs) else modelsmt.rand_env(
            set(a for a in alist if not a.startswith('__')) | set(names.keys()), cx, rng, (0.5, 1.0, 2.0)[t % 3])
        env = {k_: v for k_, v in env.items() if not k_.startswith('__')}
        for a in alist:
            if not a.startswith('__'):
                env.setdefault(a, 0.3)
        env.setdefault(varname, 0.3)
        try:
            modelsmt.subs_env(m, env)
            real = modelsmt.first(modelsmt.call_real(gen, fname, env, arglist=alist)[k])
            h = 1e-6 * max(1.0, abs(env[varname]))
            ep, em = dict(env), dict(env)
            ep[varname] = env[varname] + h
            em[varname] = env[varname] - h
            modelsmt.subs_env(m, ep); modelsmt.subs_env(m, em)
            fd = (eqsmt.nev_str(e_str, ep) - eqsmt.nev_str(e_str, em)) / (2 * h)
        except Exception:
            continue
        if not (modelsmt.finite(real) and modelsmt.finite(fd)):
            continue
        if abs(complex(real) - complex(fd)) > 1e-4 * max(1.0, abs(complex(fd)), abs(complex(real))):
            return dict(model=m.class_name, jacobian=jname, entry=k, equation=eqname, variable=varname, args=env,
                        generated=str(real), finite_difference_of_declared=str(fd), e_str=str(e_str))
    return None


def check_model(job):
    mname, timeout, part, nparts = job
    ss = modelsmt.system()
    m = ss.models[mname]
    gen = modelsmt.genmodule(mname)
    C = gen.consts
    res = []
    allv = list(m.cache.all_vars.keys())
    eq_f, eq_g = list(m.cache.states_and_ext.keys()), list(m.cache.algebs_and_ext.keys())
    have = set()
    names = modelsmt.fresh_names(m)
    decls = {}

    def dec(en):
        if en not in decls:
            var = m.cache.all_vars[en]
            decls[en] = modelsmt.decl(var.e_str, names) if var.e_str is not None else S(z3.RealVal(0))
        return decls[en]

    for jname in C.get('j_names', []):
        rows, cols = C['ijac'][jname], C['jjac'][jname]
        eqn = eq_f if jname[0] == 'f' else eq_g
        fname = f'{jname}_update'
        alist = C['j_args'][jname]
        try:
            ga = gen.call(fname, names, alist)
        except Exception as e:
            res.append(dict(kind='violation', harness='jac', region=f'{mname}.{fname}.arity', desc=repr(e)[:200],
                            replay=dict(model=mname, function=fname)))
            continue
        if len(ga) != len(rows) or len(rows) != len(cols):
            res.append(dict(kind='violation', harness='jac', region=f'{mname}.{fname}.count',
                            desc=f'{fname} returns {len(ga)} entries for {len(rows)} stored triplets',
                            replay=dict(model=mname, function=fname)))
            continue
        for k, (r, c) in enumerate(zip(rows, cols)):
            en, vn = eqn[r], allv[c]
            var = m.cache.all_vars[en]
            # the Jacobian block name must be the e_code/v_code pair of this equation and variable
            exp_j = f'{var.e_code}{m.cache.all_vars[vn].v_code}'
            if exp_j != jname:
                res.append(dict(kind='violation', harness='jac', region=f'{mname}.{jname}[{k}].block',
                                desc=f'd{en}/d{vn} stored in block {jname}, belongs to {exp_j}', replay=dict(model=mname)))
            have.add((en, vn))
            tag = f'{mname}.{jname}[{k}]=d{en}/d{vn}'
            if k % nparts != part:
                continue
            try:
                d = eqsmt.diff(dec(en).re, names[vn].re)
                st, mdl, dt = eqsmt.check_neq(ga[k], S(d), timeout_ms=timeout)
            except Exception as e:
                res.append(dict(harness='jac', name=tag, status='unknown', detail='encode: ' + repr(e)[:160]))
                continue
            if st == 'unsat':
                res.append(dict(harness='jac', name=tag, status='unsat', secs=dt))
            elif st == 'sat':
                rp = _replay_entry(m, gen, jname, k, alist, names, mdl, en, vn, var.e_str or '0', d)
                if rp is not None:
                    res.append(dict(harness='jac', name=tag, status='sat-replayed', secs=dt))
                    res.append(dict(kind='violation', harness='jac', region=tag,
                                    desc=f'generated {jname}[{k}] = {rp["generated"]} but d({en})/d({vn}) of the declared '
                                         f'equation is {rp["finite_difference_of_declared"]}', replay=rp))
                else:
                    res.append(dict(harness='jac', name=tag, status='sat-not-reproduced', secs=dt,
                                    detail='model point and 40 seeded points agree with finite differences'))
            else:
                res.append(dict(harness='jac', name=tag, status='unknown', secs=dt, detail=st))
        if len(rows) and part == 0:
            st, _, dt = eqsmt.check_neq(ga[0], S(eqsmt.diff(dec(eqn[rows[0]]).re, names[allv[cols[0]]].re)) + 1,
                                        timeout_ms=timeout)
            res.append(dict(harness='twin', name=f'{mname}.{jname}[0]+1',
                            status='witness-ok' if st == 'sat' else 'witness-missing', secs=dt))
    if part != 0:
        return res
    # constant triplets
    for jn in ('fxc', 'fyc', 'gxc', 'gyc'):
        eqn = eq_f if jn[0] == 'f' else eq_g
        for r, c, v in zip(C['ijac'].get(jn, []), C['jjac'].get(jn, []), C['vjac'].get(jn, [])):
            en, vn = eqn[r], allv[c]
            var = m.cache.all_vars[en]
            de = var.diag_eps
            if de is True:
                de = ss.config.diag_eps
            ok = (en == vn) and de not in (0.0, None) and abs(float(v) - float(de)) <= 1e-15
            tag = f'{mname}.{jn} const d{en}/d{vn}={v}'
            res.append(dict(harness='const', name=tag, status='unsat' if ok else 'sat-replayed', nontrivial=False))
            if not ok:
                res.append(dict(kind='violation', harness='const', region=tag,
                                desc=f'constant triplet {v} at ({en},{vn}) but declared diag_eps is {var.diag_eps}',
                                replay=dict(model=mname)))
    for vn, var in m.cache.all_vars.items():
        if var.diag_eps not in (0.0, None, False):
            jn = f'{var.e_code}{var.v_code}c'
            eqn = eq_f if var.e_code == 'f' else eq_g
            pairs = [(eqn[r], allv[c]) for r, c in zip(C['ijac'].get(jn, []), C['jjac'].get(jn, []))]
            if (vn, vn) not in pairs:
                res.append(dict(kind='violation', harness='const', region=f'{mname}.{vn}.diag_eps',
                                desc=f'{vn} declares diag_eps={var.diag_eps} but no constant triplet was generated',
                                replay=dict(model=mname)))
    # completeness of the pattern
    nz = 0
    for en, var in m.cache.all_vars.items():
        if var.e_str is None:
            continue
        for vn in allv:
            if (en, vn) in have:
                continue
            tag = f'{mname}: d{en}/d{vn} absent from pattern'
            try:
                d = z3.simplify(eqsmt.diff(dec(en).re, names[vn].re))
            except Exception as e:
                res.append(dict(harness='complete', name=tag, status='unknown', detail=repr(e)[:120]))
                continue
            if z3.is_rational_value(d) and d.as_fraction() == 0:
                nz += 1
                continue
            s = z3.Solver(); s.set('timeout', timeout)
            side = list(eqsmt.CTX.defs) + list(eqsmt.CTX.assume)
            s.add(*side, *eqsmt.trig_axioms([d] + side))
            s.add(d != 0)
            t0 = time.time(); r = str(s.check()); dt = time.time() - t0
            if r == 'unsat':
                res.append(dict(harness='complete', name=tag, status='unsat', secs=dt))
            elif r == 'sat':
                # structurally non-zero derivative missing from the triplets: replay by finite differences
                rp = None
                try:
                    env = {k_: v for k_, v in eqsmt.model_env(s.model(), names).items() if not k_.startswith('__')}
                    modelsmt.subs_env(m, env)
                    h = 1e-6
                    ep, em = dict(env), dict(env)
                    ep[vn] = env.get(vn, 0.0) + h; em[vn] = env.get(vn, 0.0) - h
                    modelsmt.subs_env(m, ep); modelsmt.subs_env(m, em)
                    fd = (eqsmt.nev_str(var.e_str, ep) - eqsmt.nev_str(var.e_str, em)) / (2 * h)
                    if modelsmt.finite(fd) and abs(fd) > 1e-6:
                        rp = dict(model=mname, equation=en, variable=vn, args=env, finite_difference=str(fd))
                except Exception:
                    pass
                if rp:
                    res.append(dict(harness='complete', name=tag, status='sat-replayed', secs=dt))
                    res.append(dict(kind='violation', harness='complete', region=tag,
                                    desc=f'd({en})/d({vn}) = {rp["finite_difference"]} != 0 at a concrete point but the '
                                         f'pair is not in the stored sparsity pattern', replay=rp))
                else:
                    res.append(dict(harness='complete', name=tag, status='sat-not-reproduced', secs=dt))
            else:
                res.append(dict(harness='complete', name=tag, status='unknown', secs=dt))
    res.append(dict(kind='sample', obj={'model': mname, 'stored_pairs': len(have), 'syntactically_zero_pairs': nz}))
    res.append(dict(kind='encodes', functions={f'pycode.{mname} (jacobians)': core.src_sha(gen.src)}))
    return res


def main():
    ck = core.Check(PID, 'translation_validation',
                    'Each generated Jacobian entry is proved (z3, all real arguments) equal to the derivative of the '
                    'declared equation string computed by an independent structural differentiator; the stored pattern is '
                    'proved complete (every absent pair has an identically-zero derivative); assembled system matrices '
                    'are compared entry-wise with the derivative of the assembled residual obtained by symbolic execution '
                    'of the real System on small networks.')
    import andes.core.symprocessor as SP
    import andes.core.model.model as MM
    import andes.system as SY
    ck.encodes(SP.SymProcessor.generate_jacobians, MM.Model.j_update, MM.Model.store_sparse_pattern,
               MM.Model._jac_eq_var_name, SY.System.j_update, SY.System.store_sparse_pattern, SY.System.j_islands)
    thorough = core.tier() == 'thorough'
    timeout = 60000 if thorough else 8000
    ck.bound(values='all reals', per_query_timeout_ms=timeout, models='all models', assembled='<= 4 buses / <= 14 variables')
    ck.assume('floats abstracted as reals', 'transcendental functions uninterpreted + lemma instances',
              'definedness assumed (denominators != 0, radicands >= 0)')
    ck.out('kvxopt internals (ipadd/ipset are shimmed by a dense dictionary matrix)', 'large systems',
           'hand-written j_numeric callbacks other than those executed in the assembled-level cases')
    ss = modelsmt.system()
    names = list(ss.models.keys())
    jobs = []
    for n in names:
        g = modelsmt.genmodule(n)
        ne = sum(len(v) for k, v in g.consts.get('ijac', {}).items() if not k.endswith('c'))
        nparts = 12 if n == 'Fortescue' else (4 if ne > 60 else 1)
        jobs += [(n, timeout, p, nparts) for p in range(nparts)]
    jobs.sort(key=lambda j: -j[3])
    ck.merge(core.pmap(check_model, jobs))
    try:
        from checks import c03_asm
    except ImportError:
        c03_asm = None
    if c03_asm is not None:
        ck.merge(c03_asm.run(thorough))
    ck.finish()


if __name__ == '__main__':
    core.run_main(main)
