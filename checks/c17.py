r"""
C17  Failure is reported as failure.

The success/failure logic of the routines is executed under pysym with their collaborators
replaced by nondeterministic stubs (arbitrary mismatch sequences, NaN tests as free booleans,
arbitrary sub-routine outcomes), so that EVERY way of not reaching a result is explored:
  * real PFlow.nr_solve and PFlow.run (Newton step stubbed): True is returned only if the last
    evaluated mismatch is below the tolerance; every other exit returns False with
    exit_code > 0 and without raising;
  * real TDS.test_init on symbolic residuals: True <=> max |fg| < tol, False => exit code raised;
  * real TDS.run / EIG.run on a system whose power flow did not converge: refuse, return
    False, raise the exit code, leave the state untouched;
  * real System.setup with a failed external-parameter link: returns False, exit code raised;
  * real andes.main.run exit-code aggregation over single and multiple cases.
Step-level facts (rejected step restores the state, busted => not succeeded, h = 0 => busted) are
decided in C04 and C06; the sparse-solver singular path in C16.
"""
import types

import numpy as np
import z3

from vlib import core, pysym, astcut, harness as H
from vlib.harness import AND, OR, NOT, IFF, IMPLIES, EQ, LE, LT

PID = 'C17'
NS = types.SimpleNamespace


class _Log:
    def debug(self, *a, **k): pass
    info = warning = error = critical = debug


class NPNan(pysym.NumpyProxy):
    """np.isnan(x).any() on symbols is a free boolean (reals have no NaN)"""

    def __init__(self, I):
        self.I, self.k = I, 0

    last_nan = None

    def isnan(self, a):
        if not self._sym(a):
            return np.isnan(a)
        if self.last_nan is not None:
            b = self.last_nan                    # the flag the stubbed Newton step attached to its latest value
        else:
            self.k += 1
            b = self.I.boolean(f'nan_seen_{self.k}')
        arr = np.zeros(np.shape(a), dtype=bool) if isinstance(a, np.ndarray) else None
        return NS(any=lambda: b) if arr is None else _NanArr(arr, b)


class _NanArr(np.ndarray):
    def __new__(cls, arr, flag):
        o = np.asarray(arr).view(cls)
        o._flag = flag
        return o

    def any(self, *a, **k):
        return self._flag


def h_nr_solve(max_iter):
    def h(I):
        import andes.routines.pflow as PF
        npx = NPNan(I)
        nr_solve = pysym.rebind(PF.PFlow.nr_solve, np=npx, logger=_Log())
        tol = I.real('tol')
        I.assume(LT(0, tol))
        seq = []
        pf = NS(config=NS(tol=tol, max_iter=max_iter), niter=0, mis=[1], converged=False)

        def nr_step():
            k = len(seq)
            isnan = bool(I.boolean(f'mis{k}_is_nan'))
            npx.last_nan = isnan
            v = I.real(f'mis{k}')
            I.assume(LE(0, v))
            if isnan:
                I.assume(NOT(LT(v, tol)))      # every comparison with NaN is false: it is never below the tolerance
            if isnan and not I.symbolic:
                v = float('nan')            # replay: a real NaN goes through the real numpy test
            seq.append((v, isnan))
            if len(seq) > max_iter + 3:
                raise pysym.Abort('nr_solve does not stop')
            return v
        pf.nr_step = nr_step
        ret = nr_solve(pf)
        out = [('returned flag is the converged attribute', ret is pf.converged),
               ('Newton loop stops within max_iter + 2 evaluations', len(seq) <= max_iter + 2)]
        if ret:
            out.append(('success => the last evaluated mismatch is a number below the tolerance', AND(not seq[-1][1], LT(seq[-1][0], tol))))
        else:
            out.append(('failure => the last evaluated mismatch is NaN or not below the tolerance', OR(seq[-1][1], NOT(LT(seq[-1][0], tol)))))
        out.append(('every evaluated mismatch is recorded', len(pf.mis) == len(seq)))
        return out
    return h


def h_pflow_run(max_iter, m):
    def h(I):
        import andes.routines.pflow as PF
        npx = NPNan(I)
        nr_solve = pysym.rebind(PF.PFlow.nr_solve, np=npx, logger=_Log())
        run = pysym.rebind(PF.PFlow.run, np=npx, logger=_Log(), elapsed=lambda *a: (0.0, '0 s'))
        tol = I.real('tol')
        I.assume(LT(0, tol))
        seq = []
        sysm = NS(dae=NS(m=m, x=np.zeros(0), y=np.zeros(m), xy=np.zeros(m), xy_name=['v'] * m), exit_code=0, files=NS(case='c'),
                  connectivity=lambda: None, TDS=NS(init=lambda: None), PFlow=NS(report=lambda: None))
        pf = NS(system=sysm, config=NS(tol=tol, max_iter=max_iter, method='NR', check_conn=0, init_tds=0, report=0), niter=0, mis=[1],
                converged=False, exec_time=0.0, x_sol=None, y_sol=None, summary=lambda: None)

        def init():
            pf.niter, pf.mis, pf.converged = 0, [1], False
        pf.init = init

        def nr_step():
            k = len(seq)
            isnan = bool(I.boolean(f'mis{k}_is_nan'))
            npx.last_nan = isnan
            v = I.real(f'mis{k}')
            I.assume(LE(0, v))
            if isnan:
                I.assume(NOT(LT(v, tol)))      # every comparison with NaN is false: it is never below the tolerance
            if isnan and not I.symbolic:
                v = float('nan')            # replay: a real NaN goes through the real numpy test
            seq.append((v, isnan))
            if len(seq) > max_iter + 3:
                raise pysym.Abort('nr_solve does not stop')
            return v
        pf.nr_step = nr_step
        pf.nr_solve = lambda: nr_solve(pf)
        pf.newton_krylov = lambda: None
        ret = run(pf)
        out = [('run returns the converged flag', bool(ret) is bool(pf.converged)),
               ('exit code is 0 exactly on success', (sysm.exit_code == 0) is bool(ret))]
        if m == 0:
            out.append(('a case without power-flow equations is a failure', ret is False and sysm.exit_code > 0))
        elif ret:
            out.append(('success => the last evaluated mismatch is a number below the tolerance', AND(not seq[-1][1], LT(seq[-1][0], tol))))
            out.append(('success => the solution is stored', pf.x_sol is not None and pf.y_sol is not None))
        return out
    return h


def h_exit_code_kept():
    """TDS.run epilogue (cut from the current source) after an earlier failure was recorded in the exit code
    (e.g. a failed initialisation test): reaching tf must not erase it"""
    def h(I):
        from checks import c06
        body, test, epi, cuts = c06.cut_loop()
        tds, system, cfg, S, stored, fired, conv = c06.make_tds(I, 3, 3)
        earlier = bool(I.boolean('an_earlier_step_recorded_a_failure'))
        system.exit_code = 1 if earlier else 0
        go = test(tds, system, system.dae, cfg)
        I.assume(NOT(go))
        ok = epi(tds, system, system.dae, cfg)
        return [('a failure recorded earlier in the run keeps the exit code non-zero', (not earlier) or system.exit_code > 0),
                ('no failure => exit code 0 after a completed run', earlier or system.exit_code == 0)]
    return h


def h_pflow_twice(max_iter):
    """two runs on one PFlow object with the REAL init: the outcome of the second run is its own"""
    def h(I):
        import andes.routines.pflow as PF
        npx = NPNan(I)
        nr_solve = pysym.rebind(PF.PFlow.nr_solve, np=npx, logger=_Log())
        run = pysym.rebind(PF.PFlow.run, np=npx, logger=_Log(), elapsed=lambda *a: (0.0, '0 s'))
        init_f = PF.PFlow.init
        init_f = getattr(init_f, '__wrapped__', None) or init_f
        tol = I.real('tol')
        I.assume(LT(0, tol))
        m = 2
        sysm = NS(dae=NS(m=m, n=0, x=np.zeros(0), y=np.zeros(m), xy=np.zeros(m), xy_name=['v'] * m), exit_code=0, files=NS(case='c'),
                  connectivity=lambda: None, TDS=NS(init=lambda: None), PFlow=NS(report=lambda: None), conn=NS(act=lambda: None),
                  find_models=lambda flag: {}, set_var_arrays=lambda *a, **k: None, init=lambda *a, **k: None, config=NS(numba=0))
        pf = NS(system=sysm, config=NS(tol=tol, max_iter=max_iter, method='NR', check_conn=0, init_tds=0, report=0), niter=0, mis=[1],
                converged=False, exec_time=0.0, x_sol=None, y_sol=None, summary=lambda: None, models={})
        init_real = pysym.rebind(PF.PFlow.init, logger=_Log(), elapsed=lambda *a: (0.0, '0 s'), matrix=lambda *a, **k: None)
        pf.init = lambda: init_real(pf)
        seq = []
        rn = [0]

        def nr_step():
            k = len(seq)
            v = I.real(f'run{rn[0]}_mis{k}')
            I.assume(LE(0, v))
            seq.append(v)
            if len(seq) > max_iter + 3:
                raise pysym.Abort('nr_solve does not stop')
            return v
        pf.nr_step = nr_step
        pf.nr_solve = lambda: nr_solve(pf)
        pf.newton_krylov = lambda: None
        out = []
        for r in range(2):
            rn[0] = r
            del seq[:]
            ret = run(pf)
            good = LT(seq[-1], tol)
            out.append((f'run {r + 1}: success is reported <=> its own last mismatch is below the tolerance', IFF(bool(ret), good)))
            out.append((f'run {r + 1}: exit code is 0 exactly on success', (sysm.exit_code == 0) is bool(ret)))
        return out
    return h


class NaNVal:
    """an IEEE not-a-number inside an object array: absorbs arithmetic, every ordered comparison is false"""
    __array_priority__ = 2000
    _foreign_number = True

    def _n(self, *a):
        return self
    __add__ = __radd__ = __sub__ = __rsub__ = __mul__ = __rmul__ = __truediv__ = __rtruediv__ = __neg__ = __abs__ = __pos__ = _n

    def _f(self, o):
        return False
    __lt__ = __le__ = __gt__ = __ge__ = __eq__ = _f

    def __ne__(self, o):
        return True

    def __hash__(self):
        return 7

    def __float__(self):
        return float('nan')

    def __repr__(self):
        return 'nan'


class NPNanVal(pysym.NumpyProxy):
    """numpy semantics for object arrays that may hold NaNVal: max propagates NaN, isnan is element-wise"""

    def max(self, a, *args, **kw):
        flat = list(np.ravel(a))
        for v in flat:
            if isinstance(v, NaNVal):
                return v
        return np.max(a, *args, **kw)

    def isnan(self, a):
        if self._sym(a):
            return np.array([isinstance(v, NaNVal) for v in np.ravel(a)]).reshape(np.shape(a))
        return np.isnan(a)


def h_nr_step_nan(nstate, pattern):
    """real PFlow.nr_step on residual arrays with not-a-number entries: the mismatch it reports must not pass a tolerance test"""
    def h(I):
        import andes.routines.pflow as PF

        class NPX(NPNanVal):
            def argmax(self, a, *args, **kw):
                flat = list(np.ravel(a))
                for k, v in enumerate(flat):
                    if isinstance(v, NaNVal):
                        return k                   # numpy: the first not-a-number is the maximum
                return np.argmax(a, *args, **kw)
        step = pysym.rebind(PF.PFlow.nr_step, np=NPX(), logger=_Log(), sparse=lambda blocks: 'A') if I.symbolic else \
            pysym.rebind(PF.PFlow.nr_step, logger=_Log(), sparse=lambda blocks: 'A')
        n, m = nstate, len(pattern) - nstate
        vals = [I.real(f'r{i}') for i in range(n + m)]
        arr = np.empty(n + m, dtype=object) if I.symbolic else np.zeros(n + m)
        for i in range(n + m):
            arr[i] = (NaNVal() if I.symbolic else np.nan) if pattern[i] else vals[i]
        tol = I.real('tol')
        I.assume(LT(0, tol))
        dae = NS(n=n, m=m, f=arr[:n], g=arr[n:], x=I.zeros(n), y=I.zeros(m), fx=0, fy=0, gx=0, gy=0, x_name=['x'] * n, y_name=['y'] * m)
        sysm = NS(dae=dae, j_update=lambda models: None, vars_to_models=lambda: None)
        zero = I.zeros(n + m)
        pf = NS(system=sysm, config=NS(method='NR', n_factorize=4, linsolve=0), niter=0, models={}, res=I.zeros(n + m),
                fg_update=lambda: None, solver=NS(worker=NS(new_A=False), solve=lambda A, b: zero, linsolve=lambda A, b: zero))
        mis = step(pf)
        small = mis < tol
        return [('a residual that is not a number is never reported as a mismatch below the tolerance', NOT(small) if not isinstance(small, (bool, np.bool_)) else (not small))]
    return h


def h_criteria(I):
    """one pass of the real TDS.run loop with the real stability criterion on symbolic rotor angles: an angle spread beyond the
    limit ends the run as a failure (busted), a spread inside the limit does not"""
    import types as _t
    from andes.routines.tds import TDS
    import andes.routines.criteria as CR
    from checks import c06
    body, test, epi, cuts = c06.cut_loop()
    tds, system, cfg, S, stored, fired, conv = c06.make_tds(I, 3, 3, conv_fix=True, fixt_fix=True)
    cfg.criteria = 1
    cfg.ddelta_limit = 180
    d0, d1 = I.real('delta_0'), I.real('delta_1')
    system.dae.x = I.arr('delta_0', 'delta_1')
    system.SynGen = NS(delta_addr=[0, 1])
    dd = pysym.rebind(CR.deltadelta, np=pysym.NPX) if I.symbolic else CR.deltadelta
    tds.check_criteria = _t.MethodType(pysym.rebind(TDS.check_criteria, deltadelta=dd), tds)
    I.assume(test(tds, system, system.dae, cfg))
    body(tds, system, system.dae, cfg)
    spread = d0 - d1
    lim = float(np.deg2rad(180))
    beyond = OR(LT(lim, spread), LT(lim, -spread))
    inside = AND(LT(spread, lim), LT(-spread, lim))
    return [('an accepted step whose rotor-angle spread exceeds the limit ends the run as a failure', IMPLIES(beyond, bool(tds.busted))),
            ('a spread inside the limit does not stop the run', IMPLIES(inside, not bool(tds.busted)))]


def h_test_init_nan(pattern):
    """residual vector with NaN entries at the positions of `pattern` (the other entries symbolic)"""
    def h(I):
        import andes.routines.tds as TD
        n = len(pattern)
        f = astcut.quiet(TD.TDS.test_init)
        test_init = pysym.rebind(f, np=NPNanVal(), logger=_Log(), Tab=lambda **k: NS(draw=lambda: '')) if I.symbolic else \
            pysym.rebind(f, logger=_Log(), Tab=lambda **k: NS(draw=lambda: ''))
        vals = [I.real(f'fg{i}') for i in range(n)]
        fg = np.empty(n, dtype=object) if I.symbolic else np.zeros(n)
        for i in range(n):
            fg[i] = (NaNVal() if I.symbolic else np.nan) if pattern[i] else vals[i]
        tol = I.real('tol')
        I.assume(LT(0, tol))
        xy = I.arr(*[f'xy{i}' for i in range(n)])
        dae = NS(f=I.zeros(0), fg=fg, xy=xy, xy_name=[f'v{i}' for i in range(n)])
        sysm = NS(dae=dae, j_update=lambda models: None, exist=NS(pflow_tds={}), no_check_init=[], config=NS(warn_limits=0),
                  options={}, exit_code=0)
        tds = NS(system=sysm, config=NS(tol=tol))
        ret = test_init(tds)
        return [('a residual that is not a number is never reported as a successful initialisation', ret is not True),
                ('a failed initialisation test raises the exit code', (ret is True) or sysm.exit_code > 0)]
    return h


def h_test_init(n):
    def h(I):
        import andes.routines.tds as TD
        npx = NPNan(I)
        f = astcut.quiet(TD.TDS.test_init)
        test_init = pysym.rebind(f, np=npx, logger=_Log(), Tab=lambda **k: NS(draw=lambda: ''))
        fg = I.arr(*[f'fg{i}' for i in range(n)])
        tol = I.real('tol')
        I.assume(LT(0, tol))
        xy = I.arr(*[f'xy{i}' for i in range(n)])
        dae = NS(f=I.zeros(0), fg=fg, xy=xy, xy_name=[f'v{i}' for i in range(n)])
        sysm = NS(dae=dae, j_update=lambda models: None, exist=NS(pflow_tds={}), no_check_init=[], config=NS(warn_limits=0),
                  options={}, exit_code=0)
        tds = NS(system=sysm, config=NS(tol=tol))
        ret = test_init(tds)
        small = AND(*[AND(LT(fg[i], tol), LT(-tol, fg[i])) for i in range(n)])
        return [('test_init is True <=> every residual is below the tolerance in magnitude', IFF(ret is True, small)),
                ('a failed initialisation test raises the exit code', (ret is True) or sysm.exit_code > 0),
                ('a passed test does not raise the exit code', (ret is not True) or sysm.exit_code == 0)]
    return h


def h_refuse(routine):
    def h(I):
        touched = []
        if routine == 'TDS':
            import andes.routines.tds as TD
            run = pysym.rebind(TD.TDS.run, logger=_Log())
            sysm = NS(PFlow=NS(converged=False), exit_code=0, dae=NS(t=np.array(-1.0)), options={}, files=NS(no_output=True))
            r = NS(system=sysm, config=NS(), init=lambda: touched.append('init'), init_resume=lambda: touched.append('resume'),
                   summary=lambda: touched.append('summary'), busted=False)
            ret = run(r)
        else:
            import andes.routines.eig as EG
            pre = pysym.rebind(EG.EIG._pre_check, logger=_Log())
            runf = EG.EIG.run
            runf = getattr(runf, '__wrapped__', runf)
            sysm = NS(PFlow=NS(converged=False), exit_code=0, dae=NS(n=2), conn=NS(act=lambda: None), files=NS(no_output=True), options={},
                      TDS=NS(initialized=True, init=lambda: touched.append('tds.init'), itm_step=lambda: touched.append('itm')))
            r = NS(system=sysm, config=NS(plot=0), summary=lambda: touched.append('summary'), calc_As=lambda: touched.append('calc_As'),
                   calc_pfactor=lambda: touched.append('pf'), _store_stats=lambda: None)
            r._pre_check = lambda: pre(r)
            ret = EG.EIG.run(r)
        return [(f'{routine}.run refuses to run on an unsolved power flow', ret is False),
                (f'{routine}.run raises the exit code when it refuses', sysm.exit_code > 0),
                (f'{routine}.run does not compute anything when it refuses', not [t for t in touched if t not in ('summary',)])]
    return h


def h_setup_fail(I):
    import andes.system as SY
    setup = pysym.rebind(SY.System.setup, logger=_Log(), elapsed=lambda *a: (0.0, ''))
    link_ok = bool(I.boolean('external_parameter_links_resolve'))
    calls = []
    s = NS(is_setup=False, exit_code=0, exist=NS(pflow={}), conn=NS(init=lambda: calls.append('conn')))
    for nm in ('collect_ref', '_list2array', 'find_devices', 'calc_pu_coeff', 'store_existing', 'set_address', 'set_dae_names',
               'store_sparse_pattern', 'store_adder_setter'):
        setattr(s, nm, (lambda nm=nm: (lambda *a, **k: calls.append(nm)))())
    s.link_ext_param = lambda: link_ok
    ret = setup(s)
    return [('setup returns False exactly when a required external link failed', (ret is True) == link_ok),
            ('failed setup raises the exit code and does not mark the system as set up',
             link_ok or (s.exit_code > 0 and s.is_setup is False)),
            ('successful setup marks the system as set up', (not link_ok) or s.is_setup is True)]


def h_main_run(ncases, pool):
    def h(I):
        import andes.main as MN
        codes = [bool(I.boolean(f'case{k}_fails')) for k in range(ncases)]
        unreadable = bool(I.boolean('case0_cannot_be_loaded')) if ncases == 1 else False
        systems = [None if (k == 0 and unreadable) else NS(exit_code=1 if codes[k] else 0, TDS=NS(load_plotter=lambda: None))
                   for k in range(ncases)]
        found = bool(I.boolean('files_found'))
        run = pysym.rebind(MN.run, logger=_Log(), is_interactive=lambda: False, config_logger=lambda *a, **k: None,
                           _find_cases=lambda f, p: ([f'c{k}' for k in range(ncases)] if found else []),
                           run_case=lambda c, **k: systems[int(c[1:])], import_pycode=lambda: None, set_logger_level=lambda *a: None,
                           find_log_path=lambda lg: [], _run_mp_pool=lambda cases, **k: [systems[int(c[1:])] for c in cases],
                           _run_mp_proc=lambda cases, **k: True, print=lambda *a, **k: None, elapsed=lambda *a: (0.0, '0'))
        ex = run(['x'] * ncases, pool=pool, cli=True)
        failed = (not found) or unreadable or any(codes)
        return [('exit code is non-zero when a case failed, could not be loaded or was not found', (ex != 0) if failed else True),
                ('exit code is zero when everything succeeded', (ex == 0) if not failed else True)]
    return h


def region_main(values, cname):
    return cname


def job(spec):
    import logging
    logging.getLogger('andes').setLevel(60)
    kind, arg = spec
    if kind == 'nr':
        return H.run(f'PFlow.nr_solve[max_iter={arg}]', h_nr_solve(arg), max_paths=4000, region=lambda v, c: c)
    if kind == 'pf':
        return H.run(f'PFlow.run[max_iter={arg[0]},m={arg[1]}]', h_pflow_run(*arg), max_paths=4000,
                     region=lambda v, c: ('first Newton iteration fails: ' if v.get('nan_seen_1') or True else '') + c)
    if kind == 'keep':
        return H.run('TDS.run epilogue with an earlier failure', h_exit_code_kept(), region=lambda v, c: c)
    if kind == 'pf2':
        return H.run(f'PFlow.run twice[max_iter={arg}]', h_pflow_twice(arg), max_paths=6000, region=lambda v, c: c.split(': ')[-1])
    if kind == 'nrnan':
        return H.run(f'PFlow.nr_step[{arg[0]} state(s), NaN pattern {arg[1]}]', h_nr_step_nan(*arg), region=lambda v, c: c)
    if kind == 'crit':
        return H.run('TDS.run loop body with the real stability criterion', h_criteria, max_paths=4000, region=lambda v, c: c)
    if kind == 'tinan':
        return H.run(f'TDS.test_init[NaN pattern {arg}]', h_test_init_nan(arg), region=lambda v, c: c)
    if kind == 'ti':
        return H.run(f'TDS.test_init[n={arg}]', h_test_init(arg), region=lambda v, c: c)
    if kind == 'refuse':
        return H.run(f'{arg}.run on unsolved power flow', h_refuse(arg), region=lambda v, c: c)
    if kind == 'setup':
        return H.run('System.setup with failing links', h_setup_fail, region=lambda v, c: c)
    if kind == 'main':
        return H.run(f'andes.main.run[{arg[0]} case(s), pool={arg[1]}]', h_main_run(*arg), region=lambda v, c: (
            'several cases without pool: ' if arg[0] > 1 and not arg[1] else '') + c)


def main():
    ck = core.Check(PID, 'other',
                    'Success/failure logic of the real routines executed with nondeterministic stubs for their collaborators: every '
                    'exit of PFlow.nr_solve/run, TDS.test_init, TDS.run and EIG.run on an unsolved power flow, System.setup with failed '
                    'links and andes.main.run exit-code aggregation is explored; success implies the residual test passed, every failure '
                    'returns False with a raised exit code and no exception.')
    import andes.routines.pflow as PF
    import andes.routines.tds as TD
    import andes.routines.eig as EG
    import andes.system as SY
    import andes.main as MN
    ck.encodes(PF.PFlow.nr_step, PF.PFlow.nr_solve, PF.PFlow.run, TD.TDS.test_init, TD.TDS.run, EG.EIG._pre_check, EG.EIG.run, SY.System.setup, MN.run)
    thorough = core.tier() == 'thorough'
    ck.bound(newton='max_iter in {0, 1, 2}' + (', 3' if thorough else ''), residual_vector='n <= 4' if thorough else 'n <= 3', cases='<= 2 per invocation')
    ck.stub('nr_step -> arbitrary non-negative mismatch per iteration', 'np.isnan(...).any() -> free boolean', 'init/summary/report -> no-ops',
            'run_case / multiprocessing helpers -> outcome tables', 'logging and result tables -> no-ops (cut by AST)')
    ck.assume('NaN is modelled by the free boolean of the isnan test (Newton loops) and by an absorbing not-a-number object with IEEE comparison semantics at fixed positions (test_init)')
    ck.out('NaN propagation inside numpy/C', 'unparsable input files (file I/O)', 'step-level facts: see C04/C06; solver singular path: C16')
    jobs = [('nr', k) for k in ((0, 1, 2, 3) if thorough else (0, 1, 2))] + [('pf', (k, 2)) for k in ((0, 1, 2, 3) if thorough else (0, 1, 2))] + [('pf', (1, 0))]
    jobs += [('keep', 0), ('pf2', 1)] + [('ti', n) for n in ((1, 2, 3, 4) if thorough else (1, 2, 3))] + [('tinan', p) for p in ((1,), (1, 0), (0, 1), (0, 1, 0), (1, 1))] + [('nrnan', a) for a in ((0, (1,)), (0, (0, 1)), (0, (1, 0)), (1, (1, 0)), (1, (0, 1)), (1, (0, 1, 0)))] + [('refuse', 'TDS'), ('refuse', 'EIG'), ('setup', 0), ('crit', 0)]
    jobs += [('main', (1, False)), ('main', (2, True)), ('main', (2, False))]
    ck.merge(core.pmap(job, jobs))
    ck.sample({'PFlow.run': 'mismatch sequence mis0, mis1, ... >= 0, tol > 0, nan_seen_k booleans'})
    ck.finish()


if __name__ == '__main__':
    core.run_main(main)
