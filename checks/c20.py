r"""
C20  The configuration in effect is the one the user supplied.

  A. CrossHair (symbolic execution of Python with z3) on the real System._update_config_object:
     for every option string within the bound, accepted <=> exactly one '=' and exactly one '.'
     left of it; the stored (section, key, value) are the stripped parts; otherwise ValueError.
  B. pysym on the real option / file / default plumbing: presence of the three supply channels
     (and of the dictionary channel) is symbolic; real _update_config_object merges the options
     into the ConfigParser of the file, real Config.__init__/load/add build the routine config
     in the order BaseRoutine and System use: effective value = option > file > default,
     for options in the same or another section than the file's, and two options of one section.
  C. pysym on the real Config.check for EVERY declared alternatives tuple of the System, every
     routine and every model: a symbolic value is rejected <=> it is not one of the alternatives.
  D. z3 regular-language queries for the type round trip of Config._set (str -> int -> float ->
     str): every rendering of an int parses as int; no rendering of a float parses as int and
     every one parses as float; witnesses of each language are pushed through the real _set.
"""
import configparser
import os
import types

import numpy as np
import z3

from vlib import core, pysym, chrun, harness as H
from vlib.harness import AND, OR, NOT, IFF, IMPLIES, EQ, LE, LT

PID = 'C20'
NS = types.SimpleNamespace
HERE = os.path.dirname(os.path.abspath(__file__))


def crosshair_jobs(timeout):
    path = os.path.join(HERE, 'ch', 'c20_option.py')
    return [(path, n, l, timeout) for n, l in chrun.functions(path)]


def crosshair_results(rows):
    res = []
    for name, verdict, msg, dt in rows:
        tag = f'CrossHair {name}'
        if name.startswith('twin_'):
            res.append(dict(harness='twin', name=tag, status='witness-ok' if verdict == 'counterexample' else 'witness-missing', secs=dt))
            continue
        if verdict == 'confirmed':
            res.append(dict(harness='crosshair', name=tag, status='unsat', secs=dt))
        elif verdict == 'counterexample':
            # replay: the message names the call; re-run it concretely
            ok = replay_crosshair(name, msg)
            res.append(dict(harness='crosshair', name=tag, status='sat-replayed' if ok else 'sat-not-reproduced', secs=dt, detail=msg))
            if ok:
                res.append(dict(kind='violation', harness='crosshair', region=name, desc=f'System._update_config_object: {msg}',
                                replay=dict(function=name, message=msg)))
        else:
            res.append(dict(harness='crosshair', name=tag, status='unknown', secs=dt, detail=msg))
    return res


def replay_crosshair(name, msg):
    import re
    import importlib.util
    m = re.search(r"when calling \w+\((.*)\) \(which", msg)
    if not m:
        return False
    try:
        arg = eval(m.group(1))
        spec = importlib.util.spec_from_file_location('c20_option', os.path.join(HERE, 'ch', 'c20_option.py'))
        mod = importlib.util.module_from_spec(spec)
        spec.loader.exec_module(mod)
        item = arg
        if name == 'option_accepted_iff_wellformed':
            return mod.option_accepted_iff_wellformed(item) != (item.count('=') == 1 and item.partition('=')[0].count('.') == 1)
        if name == 'option_stored_as_given':
            return not mod.option_stored_as_given(item)
    except Exception:
        return True
    return False


# ---------------------------------------------------------------- B. precedence
def h_precedence(option_section_in_file, two_options):
    def h(I):
        import andes.system as SY
        from andes.core.common import Config
        have_file, have_opt, have_dict = bool(I.boolean('file_supplies_value')), bool(I.boolean('option_supplies_value')), \
            bool(I.boolean('dict_supplies_value'))
        obj = None
        if have_file or option_section_in_file:
            obj = configparser.ConfigParser()
            obj.add_section('TDS' if option_section_in_file else 'Other')
            if have_file:
                if not obj.has_section('TDS'):
                    obj.add_section('TDS')
                obj.set('TDS', 'tf', '11')
        opts = []
        if have_opt:
            opts.append('TDS.tf = 22')
        if two_options:
            opts.append('TDS.tstep=0.5')
        fake = NS(options={'config_option': opts} if opts else {}, _config_object=obj)
        SY.System._update_config_object(fake)
        # a routine builds its config like BaseRoutine/TDS.__init__: Config(name); load(config object); add(defaults)
        cfg = Config('TDS', dct={'tf': 33} if have_dict else None)
        cfg.load(fake._config_object)
        cfg.add(tf=20.0, tstep=1 / 30)
        want = 33 if have_dict else (22 if have_opt else (11 if have_file else 20.0))
        out = [('effective value follows dictionary > option > file > default', cfg.tf == want and type(cfg.tf) is type(want))]
        if two_options:
            out.append(('a second option of the same section is in effect too', cfg.tstep == 0.5))
        return out
    return h


def h_two_systems(I):
    """two System-like objects built one after the other from the SAME rc file; only the first has an option"""
    import andes.system as SY
    from andes.core.common import Config
    path = os.path.join(core.workdir(), 'two_systems.rc')
    with open(path, 'w') as f:
        f.write('[TDS]\ntf = 11\n')
    first_has_option = bool(I.boolean('first_system_has_option'))
    s1 = NS(options={'config_option': ['TDS.tf = 22']} if first_has_option else {}, _config_object=SY.load_config_rc(path))
    SY.System._update_config_object(s1)
    s2 = NS(options={}, _config_object=SY.load_config_rc(path))
    SY.System._update_config_object(s2)
    c1, c2 = Config('TDS'), Config('TDS')
    c1.load(s1._config_object); c1.add(tf=20.0)
    c2.load(s2._config_object); c2.add(tf=20.0)
    return [('the first system uses its option, else the file value', c1.tf == (22 if first_has_option else 11)),
            ('a later system built from the same file is not affected by the options of an earlier one', c2.tf == 11)]


# ---------------------------------------------------------------- C. Config.check over every declared _alt
def all_configs():
    ss = core.new_system()
    out = [('System', ss.config)]
    for rn, r in ss.routines.items():
        out.append((rn, r.config))
    for mn, m in ss.models.items():
        out.append((mn, m.config))
    return out


def h_check_alt(owner, key, alt):
    def h(I):
        from andes.core.common import Config
        v = I.real('value')
        cfg = Config(owner)
        cfg.add(**{key: v})
        cfg.add_extra('_alt', **{key: alt})
        raised = False
        try:
            cfg.check()
        except ValueError:
            raised = True
        member = OR(*[EQ(v, a, tol=0.0) for a in alt if isinstance(a, (int, float))]) if any(isinstance(a, (int, float)) for a in alt) else False
        return [(f'[{owner}].{key}: rejected <=> the value is not one of {tuple(alt)}', IFF(raised, NOT(member)))]
    return h


def job_alt(chunk):
    res = []
    for owner, key, alt in chunk:
        res += H.run(f'Config.check[{owner}.{key}]', h_check_alt(owner, key, alt), twin=False, region=lambda v, c: c)
    return res


# ---------------------------------------------------------------- D. regular languages of rendered numbers
def languages():
    d19 = z3.Range('1', '9')
    d09 = z3.Range('0', '9')
    digits = z3.Plus(d09)
    sign = z3.Option(z3.Union(z3.Re('-'), z3.Re('+')))
    ws = z3.Star(z3.Union(z3.Re(' '), z3.Re('\t'), z3.Re('\n')))
    # what str(int) produces
    int_render = z3.Concat(z3.Option(z3.Re('-')), z3.Union(z3.Re('0'), z3.Concat(d19, z3.Star(d09))))
    # what int(str) accepts (ASCII subset): [ws][sign]digit(_?digit)*[ws]
    int_parse = z3.Concat(ws, sign, d09, z3.Star(z3.Concat(z3.Option(z3.Re('_')), d09)), ws)
    # what repr(float) produces: digits '.' digits | mantissa 'e' sign digits | inf | nan
    mant = z3.Concat(digits, z3.Option(z3.Concat(z3.Re('.'), digits)))
    float_render = z3.Concat(z3.Option(z3.Re('-')), z3.Union(z3.Concat(digits, z3.Re('.'), digits),
                                                              z3.Concat(mant, z3.Re('e'), z3.Union(z3.Re('-'), z3.Re('+')), digits),
                                                              z3.Re('inf'), z3.Re('nan')))
    # what float(str) accepts (ASCII subset)
    num = z3.Union(z3.Concat(digits, z3.Option(z3.Concat(z3.Re('.'), z3.Star(d09)))), z3.Concat(z3.Re('.'), digits))
    expo = z3.Option(z3.Concat(z3.Union(z3.Re('e'), z3.Re('E')), sign, digits))
    float_parse = z3.Concat(ws, sign, z3.Union(z3.Concat(num, expo), z3.Re('inf'), z3.Re('nan'), z3.Re('infinity')), ws)
    return dict(int_render=int_render, int_parse=int_parse, float_render=float_render, float_parse=float_parse)


def language_obligations():
    import time
    from andes.core.common import Config
    L = languages()
    s_ = z3.String('s')
    res = []

    def q(name, pos, neg, expect_unsat=True):
        s = z3.Solver()
        s.set('timeout', 30000)
        s.add(z3.Length(s_) <= 12)
        for l in pos:
            s.add(z3.InRe(s_, L[l]))
        for l in neg:
            s.add(z3.Not(z3.InRe(s_, L[l])))
        t = time.time()
        r = str(s.check())
        dt = time.time() - t
        if expect_unsat:
            if r == 'unsat':
                res.append(dict(harness='languages', name=name, status='unsat', secs=dt))
            elif r == 'sat':
                w = s.model()[s_].as_string()
                res.append(dict(harness='languages', name=name, status='sat-not-reproduced', secs=dt, detail=w))
            else:
                res.append(dict(harness='languages', name=name, status='unknown', secs=dt))
        else:
            res.append(dict(harness='twin', name=name, status='witness-ok' if r == 'sat' else 'witness-missing', secs=dt))
            if r == 'sat':
                return s.model()[s_].as_string()
        return None
    q('every rendering of an int is parsed back as an int (length <= 12)', ['int_render'], ['int_parse'])
    q('no rendering of a float is taken for an int', ['float_render', 'int_parse'], [])
    q('every rendering of a float is parsed back as a float', ['float_render'], ['float_parse'])
    # the language model is validated on the real Config._set with solver-produced witnesses of each language
    for lang, typ in (('int_render', int), ('float_render', float)):
        seen = []
        for k in range(6):
            s = z3.Solver()
            s.add(z3.InRe(s_, L[lang]), z3.Length(s_) <= 8, z3.Length(s_) >= 1 + k // 2)
            for w in seen:
                s.add(s_ != z3.StringVal(w))
            if str(s.check()) != 'sat':
                break
            w = s.model()[s_].as_string()
            seen.append(w)
            cfg = Config('X')
            cfg._set('k', w)
            ok = type(cfg.k) is typ
            res.append(dict(harness='languages', name=f'real Config._set({w!r}) gives a {typ.__name__}', status='unsat' if ok else 'sat-replayed',
                            nontrivial=False))
            if not ok:
                res.append(dict(kind='violation', harness='languages', region=f'_set {lang}', desc=f'Config._set({w!r}) stored {cfg.k!r} of type '
                                f'{type(cfg.k).__name__}, expected {typ.__name__}', replay=dict(value=w)))
    # save -> load round trip of the types through str(): int -> int, float -> float (real _set on str(value))
    for v in (0, 7, -3, 120, 1.0, 0.5, 1e-6, 2.5e10, float('inf')):
        cfg = Config('X')
        cfg._set('k', str(v))
        ok = type(cfg.k) is type(v) and (cfg.k == v)
        res.append(dict(harness='languages', name=f'save/load of {v!r} keeps value and type', status='unsat' if ok else 'sat-replayed',
                        nontrivial=False))
        if not ok:
            res.append(dict(kind='violation', harness='languages', region='round trip', desc=f'{v!r} saved as {str(v)!r} loads as {cfg.k!r}',
                            replay=dict(value=repr(v))))
    q('twin: some string is an int rendering', ['int_render'], [], expect_unsat=False)
    return res


def h_collect_after_change(how):
    """a field changed after construction (attribute assignment, update(), a second add()) is the value collect_config/save_config write"""
    def h(I):
        import andes.system as SY
        from andes.core.common import Config
        cfg = Config('TDS')
        cfg.add(tf=20.0, tstep=0.1)
        cfg.as_dict()                                   # the cache is filled during set-up (documentation, reports)
        val = I.real('new_value')
        if how == 'attribute':
            cfg.tf = val
        elif how == 'update':
            cfg.update(tf=val)
        else:
            cfg.add(tf=val)
        collect = pysym.rebind(SY.System.collect_config, configparser=NS(ConfigParser=dict))
        fake = NS(config=Config('System'), routines={'TDS': NS(config=cfg)}, models={})
        fake.config.add(freq=60)
        out = collect(fake)
        return [('the value in effect is the value used', EQ(cfg.tf, val, tol=0.0)),
                ('the collected (saved) configuration holds the value in effect', 'tf' in out.get('TDS', {}) and EQ(out['TDS']['tf'], val, tol=0.0))]
    return h


def h_update_rejects(I):
    """Config.update() after the fields were listed once: a value outside the declared alternatives is rejected, one inside is used"""
    from andes.core.common import Config
    cfg = Config('TDS')
    cfg.add(fixt=1, tstep=0.1)
    cfg.add_extra('_alt', fixt=(0, 1), tstep='float')
    cfg.as_dict()
    val = I.real('new_value')
    raised = False
    try:
        cfg.update(fixt=val)
    except ValueError:
        raised = True
    legal = OR(EQ(val, 0, tol=0.0), EQ(val, 1, tol=0.0))
    return [('update() raises <=> the value is outside the declared alternatives', IFF(raised, NOT(legal))),
            ('an accepted value is the value in effect', raised or EQ(cfg.fixt, val, tol=0.0))]


def h_method_in_effect(I):
    """the integration method named in the configuration when the simulation is initialised is the one that integrates"""
    from vlib import cases as CS
    out = []
    for name, cls in (('backeuler', 'BackEuler'), ('trapezoid', 'Trapezoid')):
        ss = CS.build([1, 2], lines=[(1, 2)], slacks=[dict(bus=1, idx='S')], pqs=[dict(bus=2, idx='D', p0=0.1, q0=0.0)], setup=False)
        ss.setup()
        ss.PFlow.run()
        ss.TDS.config.no_tqdm = 1
        ss.TDS.config.method = name              # changed after construction, before the run
        ss.TDS.init()
        out.append((f'TDS.config.method = {name!r} set before initialisation is the method in effect', type(ss.TDS.method).__name__ == cls))
    return out


def job(spec):
    import logging
    logging.getLogger('andes').setLevel(60)
    kind, arg = spec
    if kind == 'ch':
        return crosshair_results([chrun.job(arg)])
    if kind == 'prec':
        return H.run(f'config precedence [option section in file={arg[0]}, two options={arg[1]}]', h_precedence(*arg), region=lambda v, c: c)
    if kind == 'two':
        return H.run('two systems from one rc file', h_two_systems, region=lambda v, c: c)
    if kind == 'method':
        return H.run('TDS.config.method changed after construction', h_method_in_effect, region=lambda v, c: c)
    if kind == 'updrej':
        return H.run('Config.update with a value outside the alternatives', h_update_rejects, region=lambda v, c: c)
    if kind == 'collect':
        return H.run(f'collect_config after a change by {arg}', h_collect_after_change(arg), region=lambda v, c: c)
    if kind == 'alt':
        return job_alt(arg)
    if kind == 'lang':
        return language_obligations()


def main():
    ck = core.Check(PID, 'other',
                    'CrossHair on the real option-string parser (accept <=> well-formed, stored parts); pysym on the real option/file/'
                    'default/dictionary plumbing with symbolic channel presence; pysym on Config.check for every declared alternatives '
                    'tuple of System, routines and models; z3 regular-language inclusion/disjointness for the int/float rendering and '
                    'parsing used by Config._set, validated on the real _set.')
    import andes.system as SY
    import andes.core.common as CM
    ck.encodes(SY.System._update_config_object, CM.Config.__init__, CM.Config.load, CM.Config.add, CM.Config._add, CM.Config._set,
               CM.Config.check, SY.System.collect_config, SY.System.save_config)
    thorough = core.tier() == 'thorough'
    to = 300 if thorough else 90
    ck.bound(option_strings="length <= 4 over the alphabet 'aB.= 1' (CrossHair)", rendered_numbers='length <= 12',
             alternatives='every numeric _alt tuple of every config object')
    ck.assume("option strings contain no '%' (configparser interpolation) -- stated, not checked",
              'float(repr(x)) == x is trusted (Python)', 'language model of int()/float() restricted to ASCII')
    ck.out('reading/writing the rc file itself (file I/O)', 'values of ~400 fields are covered structurally, not one by one')
    jobs = [('ch', j) for j in crosshair_jobs(to)]
    jobs += [('prec', (a, b)) for a in (True, False) for b in (True, False)] + [('two', 0)] + [('collect', h) for h in ('attribute', 'update')] + [('updrej', 0), ('method', 0)]
    alts = []
    for owner, cfg in all_configs():
        for key, alt in cfg._alt.items():
            if isinstance(alt, (tuple, list, set)) and not isinstance(alt, str) and any(isinstance(a, (int, float)) for a in alt) \
                    and key in cfg.__dict__:
                alts.append((owner, key, tuple(a for a in alt)))
    ck.extra['alternatives_tuples'] = len(alts)
    chunk = max(1, len(alts) // 12)
    jobs += [('alt', alts[i:i + chunk]) for i in range(0, len(alts), chunk)]
    jobs.append(('lang', 0))
    ck.merge(core.pmap(job, jobs))
    ck.sample({'option string': 'symbolic str, len <= 4', 'precedence': 'file_supplies_value, option_supplies_value, dict_supplies_value symbolic'})
    ck.finish()


if __name__ == '__main__':
    core.run_main(main)
