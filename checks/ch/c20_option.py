"""
CrossHair harness: System._update_config_object on a symbolic option string.
Run by checks/c20.py with `crosshair check --report_all`.
"""
import types

import andes.system as SY


def _apply(item: str):
    fake = types.SimpleNamespace(options={'config_option': [item]}, _config_object=None)
    SY.System._update_config_object(fake)
    return fake._config_object


def option_accepted_iff_wellformed(item: str) -> bool:
    """
    pre: len(item) <= 4
    pre: all(c in 'aB.= 1' for c in item)
    post: __return__ == (item.count('=') == 1 and item.partition('=')[0].count('.') == 1)
    """
    try:
        _apply(item)
        return True
    except ValueError:
        return False


def option_stored_as_given(item: str) -> bool:
    """
    pre: len(item) <= 4
    pre: all(c in 'aB.= 1' for c in item)
    pre: item.count('=') == 1 and item.partition('=')[0].count('.') == 1
    post: __return__
    """
    lhs, _, rhs = item.partition('=')
    sec, _, key = lhs.partition('.')
    obj = _apply(item)
    # configparser lower-cases option names (Config fields are lower case by convention)
    return obj.get(sec.strip(), key.strip().lower()) == rhs.strip() and obj.sections() == [sec.strip()]


def twin_every_string_is_accepted(item: str) -> bool:
    """
    vacuity twin: this contract is FALSE and CrossHair must refute it
    pre: len(item) <= 4
    pre: all(c in 'aB.= 1' for c in item)
    post: __return__
    """
    try:
        _apply(item)
        return True
    except ValueError:
        return False
