"""
CrossHair harness: GroupBase.get_next_idx / GroupBase.add -- device indices stay unique within a group,
automatically generated indices never collide, a free proposed index is kept.
"""
from typing import List, Optional, Union

from andes.models.group import GroupBase


class _M:
    class_name = 'M'


def _group(existing):
    g = GroupBase()
    m = _M()
    for e in existing:
        if e not in g._idx2model:
            g.add(e, m)
    return g, m


def next_idx_never_collides(existing: List[str], proposed: Optional[str]) -> str:
    """
    pre: len(existing) <= 3 and all(len(e) <= 3 and all(c in 'M_12' for c in e) for e in existing)
    pre: proposed is None or (len(proposed) <= 3 and all(c in 'M_12' for c in proposed))
    post: __return__ not in existing
    post: (proposed is None) or (proposed in existing) or (__return__ == proposed)
    """
    g, m = _group(existing)
    return g.get_next_idx(idx=proposed, model_name='M')


def int_and_auto_indices_never_collide(existing: List[int], proposed: Optional[int]) -> Union[int, str]:
    """
    pre: len(existing) <= 3 and all(0 <= e <= 4 for e in existing)
    pre: proposed is None or 0 <= proposed <= 4
    post: __return__ not in existing
    post: (proposed is None) or (proposed in existing) or (__return__ == proposed)
    """
    g, m = _group(existing)
    return g.get_next_idx(idx=proposed, model_name='M')


def sequence_of_adds_keeps_indices_unique(p1: Optional[str], p2: Optional[str], p3: Optional[str]) -> List[str]:
    """
    pre: all(p is None or (len(p) <= 3 and all(c in 'M_12' for c in p)) for p in (p1, p2, p3))
    post: len(set(__return__)) == 3
    post: all((p is None) or (p in __return__) for p in (p1,)) 
    """
    g, m = _group([])
    out = []
    for p in (p1, p2, p3):
        idx = g.get_next_idx(idx=p, model_name='M')
        g.add(idx, m)          # raises KeyError on a duplicate: would be reported by CrossHair
        out.append(idx)
    return out


def duplicate_registration_is_rejected(a: str, b: str) -> bool:
    """
    pre: len(a) <= 3 and len(b) <= 3
    post: __return__ == (a == b)
    """
    g, m = _group([a])
    try:
        g.add(b, m)
        return False
    except KeyError:
        return True


def twin_proposed_index_always_kept(existing: List[str], proposed: str) -> str:
    """
    vacuity twin (false): a proposed index is returned even when it is taken
    pre: len(existing) <= 2 and all(len(e) <= 2 for e in existing) and len(proposed) <= 2
    post: __return__ == proposed
    """
    g, m = _group(existing)
    return g.get_next_idx(idx=proposed, model_name='M')
