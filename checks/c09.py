"""
C09  Limiters and other discrete components enforce their documented semantics.

The real check_var / check_eq of every discrete class in andes/core/discrete.py is executed
under pysym on symbolic inputs, limits, equation values and time stamps (object arrays); per
path the solver decides the flag semantics (values in {0,1}, agreement with the comparison,
exhaustiveness / exclusivity), the pegging effects of the anti-windup family and, for the
history components, equality with a short reference definition over ALL time sequences of
bounded length (increasing, repeated and rewound stamps).  Counterexamples are replayed on
float arrays through the same harness.
"""
import itertools
import types

import numpy as np
import z3

from vlib import core, pysym, harness as H
from vlib.harness import AND, OR, NOT, IFF, IMPLIES, EQ, LE, LT, ITE

PID = 'C09'


class NS(types.SimpleNamespace):
    pass


def var(I, names, with_e=False, a0=0):
    v = NS(v=I.arr(*names), name='u', a=np.arange(a0, a0 + len(names)), n=len(names))
    if with_e:
        v.e = I.arr(*[n + '_e' for n in names])
    return v


def par(I, names, name):
    return NS(v=I.arr(*names), name=name)


def flag01(x):
    return OR(EQ(x, 0), EQ(x, 1))


# --------------------------------------------------------------------------- Limiter family
def h_limiter(cls_name, equal, sign_lower, sign_upper, no_lower, no_upper, n=2):
    def h(I):
        from andes.core import discrete as D
        cls = getattr(D, cls_name)
        u = var(I, [f'u{i}' for i in range(n)])
        lo = par(I, [f'lo{i}' for i in range(n)], 'lower')
        up = par(I, [f'up{i}' for i in range(n)], 'upper')
        kw = dict(equal=equal) if cls_name != 'DeadBand' else {}
        if cls_name == 'DeadBand':
            L = cls(u, 0.0, lo, up)
        else:
            L = cls(u, lo, up, sign_lower=sign_lower, sign_upper=sign_upper, no_lower=no_lower, no_upper=no_upper, **kw)
        L.list2array(n)
        L.check_var()
        eq = equal if cls_name != 'DeadBand' else False
        out = []
        for i in range(n):
            lov = (-lo.v[i] if sign_lower == -1 else lo.v[i])
            upv = (-up.v[i] if sign_upper == -1 else up.v[i])
            zu = L.zu[i] if not no_upper else 0.0
            zl = L.zl[i] if not no_lower else 0.0
            zi = L.zi[i]
            out.append((f'flags01[{i}]', AND(flag01(zu), flag01(zl), flag01(zi))))
            if not no_upper:
                out.append((f'zu<=>u>=upper[{i}]', IFF(EQ(zu, 1), (LE(upv, u.v[i]) if eq else LT(upv, u.v[i])))))
            if not no_lower:
                out.append((f'zl<=>u<=lower[{i}]', IFF(EQ(zl, 1), (LE(u.v[i], lov) if eq else LT(u.v[i], lov)))))
            out.append((f'zi<=>not(zl|zu)[{i}]', IFF(EQ(zi, 1), NOT(OR(EQ(zu, 1), EQ(zl, 1))))))
            out.append((f'exhaustive[{i}]', LE(1, zu + zl + zi)))
            out.append((f'exclusive-if-lower<upper[{i}]', IMPLIES(LT(lov, upv), EQ(zu + zl + zi, 1))))
        return out
    return h


def h_limiter_adjust(which):
    """init-time adjustment: a limit moves only outward, only to the input value, only if both switches are on"""
    def h(I):
        from andes.core import discrete as D
        n = 2
        u = var(I, [f'u{i}' for i in range(n)])
        lo = par(I, [f'lo{i}' for i in range(n)], 'lower')
        up = par(I, [f'up{i}' for i in range(n)], 'upper')
        lo0, up0 = lo.v.copy(), up.v.copy()
        L = D.Limiter(u, lo, up)
        L.owner = NS(idx=NS(v=list(range(n))), class_name='Host')
        L.list2array(n)
        if I.symbolic:
            L._show_adjust = lambda *a, **k: None       # table formatting of the adjusted limits (logging only)
        allow, adj = which
        L.check_var(allow_adjust=allow, adjust_lower=adj, adjust_upper=adj, is_init=True)
        out = []
        for i in range(n):
            if allow and adj:
                out.append((f'upper adjusted outward only[{i}]', EQ(up.v[i], ITE(LT(up0[i], u.v[i]), u.v[i], up0[i]))))
                out.append((f'lower adjusted outward only[{i}]', EQ(lo.v[i], ITE(LT(u.v[i], lo0[i]), u.v[i], lo0[i]))))
            else:
                out.append((f'limits untouched[{i}]', AND(EQ(up.v[i], up0[i]), EQ(lo.v[i], lo0[i]))))
            out.append((f'after-adjust zu<=>u>=upper[{i}]', IFF(EQ(L.zu[i], 1), LE(up.v[i], u.v[i]))))
        return out
    return h


def h_antiwindup(niter, zu_prev, zl_prev, cls_name='AntiWindup', no_lower=False, no_upper=False):
    def h(I):
        from andes.core import discrete as D
        n = 1
        x = var(I, ['x0'], with_e=True, a0=3)
        v0, e0 = x.v.copy(), x.e.copy()
        lo = par(I, ['lo0'], 'lower')
        up = par(I, ['up0'], 'upper')
        if cls_name == 'AntiWindup':
            L = D.AntiWindup(x, lo, up, no_lower=no_lower, no_upper=no_upper)
        else:
            rl, ru = par(I, ['rl0'], 'rl'), par(I, ['ru0'], 'ru')
            L = D.AntiWindupRate(x, lo, up, rate_lower=rl, rate_upper=ru, no_lower=no_lower, no_upper=no_upper)
            I.assume(LT(rl.v[0], ru.v[0]))
        L.list2array(n)
        if not no_upper:
            L.zu[:] = zu_prev
        if not no_lower:
            L.zl[:] = zl_prev
        L.zi[:] = 1 - max(zu_prev, zl_prev)
        L.check_eq(niter=niter)
        lock = niter > L.niter_lock
        # equation value seen by the anti-windup rule (after the optional rate clamp)
        if cls_name == 'AntiWindup':
            ee = e0[0]
        else:
            ee = ITE(LT(e0[0], rl.v[0]), rl.v[0], ITE(LT(ru.v[0], e0[0]), ru.v[0], e0[0]))
        zu = L.zu[0] if not no_upper else 0.0
        zl = L.zl[0] if not no_lower else 0.0
        want_u = AND(LE(up.v[0], v0[0]), LE(0, ee))
        want_l = AND(LE(v0[0], lo.v[0]), LE(ee, 0))
        if lock:
            want_u, want_l = OR(zu_prev == 1, want_u), OR(zl_prev == 1, want_l)
        out = [('flags01', AND(flag01(zu), flag01(zl), flag01(L.zi[0])))]
        if not no_upper:
            out.append(('zu<=>(x>=upper & xdot>=0)' + (' | latched' if lock else ''), IFF(EQ(zu, 1), want_u)))
        if not no_lower:
            out.append(('zl<=>(x<=lower & xdot<=0)' + (' | latched' if lock else ''), IFF(EQ(zl, 1), want_l)))
        out.append(('zi<=>not(zl|zu)', IFF(EQ(L.zi[0], 1), NOT(OR(EQ(zu, 1), EQ(zl, 1))))))
        pegged = EQ(L.zi[0], 0)
        sane = LT(lo.v[0], up.v[0])
        if isinstance(L.zi[0], (float, np.floating)) and L.zi[0] == 0:
            out.append(('pegged => xdot=0', EQ(x.e[0], 0)))
            lim = ITE(EQ(zu, 1), up.v[0], lo.v[0])
            out.append(('pegged => x=limit (lower<upper)', IMPLIES(AND(sane, NOT(AND(EQ(zu, 1), EQ(zl, 1)))), EQ(x.v[0], lim))))
            ok = len(L.x_set) == 1 and list(L.x_set[0][0]) == [3]
            out.append(('pegged => x_set holds the address and the limit value',
                        AND(ok, IMPLIES(sane, EQ(L.x_set[0][1][0], x.v[0])) if ok else False)))
        else:
            out.append(('free => value untouched', EQ(x.v[0], v0[0])))
            out.append(('free => xdot is the (rate-clamped) equation value', EQ(x.e[0], ee)))
            out.append(('free => x_set empty', len(L.x_set) == 0))
        return out
    return h


def h_ratelimiter(cond_l, cond_u):
    def h(I):
        from andes.core import discrete as D
        x = var(I, ['x0', 'x1'], with_e=True)
        e0 = x.e.copy()
        rl, ru = par(I, ['rl0', 'rl1'], 'rl'), par(I, ['ru0', 'ru1'], 'ru')
        cl = NS(v=np.array([float(cond_l)] * 2), name='cl')
        cu = NS(v=np.array([float(cond_u)] * 2), name='cu')
        L = D.RateLimiter(x, rl, ru, lower_cond=cl, upper_cond=cu)
        L.list2array(2)
        for i in range(2):
            I.assume(LT(rl.v[i], ru.v[i]))
        L.check_eq()
        out = []
        for i in range(2):
            want = e0[i]
            if cond_l:
                want = ITE(LT(e0[i], rl.v[i]), rl.v[i], want)
            if cond_u:
                want = ITE(LT(ru.v[i], e0[i]), ru.v[i], want)
            out.append((f'xdot clamped to enabled rate limits[{i}]', EQ(x.e[i], want)))
            out.append((f'zlr<=>xdot<lower&enabled[{i}]', IFF(EQ(L.zlr[i], 1), AND(bool(cond_l), LT(e0[i], rl.v[i])))))
            out.append((f'zur<=>xdot>upper&enabled[{i}]', IFF(EQ(L.zur[i], 1), AND(bool(cond_u), LT(ru.v[i], e0[i])))))
        return out
    return h


def h_lessthan(equal, enable, cache):
    def h(I):
        from andes.core import discrete as D
        u = var(I, ['u0', 'u1'])
        b = par(I, ['b0', 'b1'], 'bound')
        L = D.LessThan(u, b, equal=equal, enable=enable, cache=cache, z0=0, z1=1)
        L.list2array(2)
        L.check_var()
        first = [(L.z0[i], L.z1[i]) for i in range(2)]
        u1 = [u.v[0], u.v[1]]
        # second evaluation with new inputs: cached instances keep, others follow
        u.v = I.arr('w0', 'w1')
        L.u = u
        L.check_var()
        out = []
        for i in range(2):
            z0a, z1a = first[i]
            if enable:
                cmp1 = LE(u1[i], b.v[i]) if equal else LT(u1[i], b.v[i])
                out.append((f'z1<=>u<bound[{i}]', IFF(EQ(z1a, 1), cmp1)))
                out.append((f'z0=not z1[{i}]', AND(flag01(z0a), flag01(z1a), EQ(z0a + z1a, 1))))
                cmp2 = cmp1 if cache else (LE(u.v[i], b.v[i]) if equal else LT(u.v[i], b.v[i]))
                out.append((f'second call {"cached" if cache else "re-evaluated"}[{i}]', IFF(EQ(L.z1[i], 1), cmp2)))
            else:
                out.append((f'disabled keeps defaults[{i}]', AND(EQ(L.z0[i], 0), EQ(L.z1[i], 1))))
        return out
    return h


def h_isequal(I):
    from andes.core import discrete as D
    u = var(I, ['u0', 'u1'])
    b = par(I, ['b0', 'b1'], 'bound')
    L = D.IsEqual(u, b)
    L.list2array(2)
    L.check_var()
    return [(f'z1<=>u==bound[{i}]', IFF(EQ(L.z1[i], 1), EQ(u.v[i], b.v[i], tol=0.0))) for i in range(2)]


class NPProxy:
    """numpy with `isnan` defined on symbolic reals (reals have no NaN): listed stub"""

    def __getattr__(self, k):
        return getattr(np, k)

    @staticmethod
    def isnan(x):
        if isinstance(x, (pysym.SR, pysym.SB)):
            return False
        return np.isnan(x)


def h_switcher(I):
    from andes.core import discrete as D
    D_np = D.np
    D.np = NPProxy()
    try:
        opts = [0, 1, 2, 5]
        u = var(I, ['u0', 'u1'])
        S = D.Switcher(u, options=opts, cache=False)
        S.owner = NS(class_name='Host')
        try:
            S.list2array(2)     # real list2array evaluates check_var
        except ValueError as e:
            return [('invalid option raises', OR(*[NOT(OR(*[EQ(u.v[i], o, tol=0.0) for o in opts])) for i in range(2)]))]
        out = [('valid options accepted', AND(*[OR(*[EQ(u.v[i], o, tol=0.0) for o in opts]) for i in range(2)]))]
        for i in range(2):
            for k, o in enumerate(opts):
                out.append((f's{k}<=>u=={o}[{i}]', IFF(EQ(S.__dict__[f's{k}'][i], 1), EQ(u.v[i], o, tol=0.0))))
            out.append((f'one-hot[{i}]', EQ(sum(S.__dict__[f's{k}'][i] for k in range(len(opts))), 1)))
        return out
    finally:
        D.np = D_np


def h_selector(fun_name):
    def h(I):
        from andes.core import discrete as D
        a, b = var(I, ['a0', 'a1']), var(I, ['b0', 'b1'])
        fun = np.maximum.reduce if fun_name == 'max' else np.minimum.reduce
        S = D.Selector(a, b, fun=fun)
        S.list2array(2)
        S.check_var()
        out = []
        for i in range(2):
            ext = ITE((LE(b.v[i], a.v[i]) if fun_name == 'max' else LE(a.v[i], b.v[i])), a.v[i], b.v[i])
            out.append((f's0<=>a is the {fun_name}[{i}]', IFF(EQ(S.s0[i], 1), EQ(a.v[i], ext, tol=0.0))))
            out.append((f's1<=>b is the {fun_name}[{i}]', IFF(EQ(S.s1[i], 1), EQ(b.v[i], ext, tol=0.0))))
            out.append((f'some input selected[{i}]', LE(1, S.s0[i] + S.s1[i])))
        return out
    return h


def h_sortedlimiter(I):
    from andes.core import discrete as D
    n = 3
    u = var(I, [f'u{i}' for i in range(n)])
    lo = par(I, [f'lo{i}' for i in range(n)], 'lower')
    up = par(I, [f'up{i}' for i in range(n)], 'upper')
    for i in range(n):
        I.assume(LT(lo.v[i], up.v[i]))
    L = D.SortedLimiter(u, lo, up, n_select=1)
    L.list2array(n)
    L.check_var()
    out = []
    for i in range(n):
        out.append((f'flags01[{i}]', AND(flag01(L.zl[i]), flag01(L.zu[i]), flag01(L.zi[i]))))
        out.append((f'zl=>u<=lower[{i}]', IMPLIES(EQ(L.zl[i], 1), LE(u.v[i], lo.v[i]))))
        out.append((f'zu=>u>=upper[{i}]', IMPLIES(EQ(L.zu[i], 1), LE(up.v[i], u.v[i]))))
        out.append((f'zi<=>not(zl|zu)[{i}]', IFF(EQ(L.zi[i], 1), NOT(OR(EQ(L.zl[i], 1), EQ(L.zu[i], 1))))))
        for j in range(n):
            if i != j:
                out.append((f'flagged lower violator is the worst [{i},{j}]',
                            IMPLIES(AND(EQ(L.zl[i], 1), EQ(L.zl[j], 0), LE(u.v[j], lo.v[j])),
                                    LE(u.v[i] - lo.v[i], u.v[j] - lo.v[j]))))
    out.append(('at most n_select lower flags', LE(sum(L.zl[i] for i in range(n)), 1)))
    out.append(('at most n_select upper flags', LE(sum(L.zu[i] for i in range(n)), 1)))
    out.append(('a lower violation is flagged', IMPLIES(OR(*[LE(u.v[i], lo.v[i]) for i in range(n)]),
                                                        LE(1, sum(L.zl[i] for i in range(n))))))
    return out


# --------------------------------------------------------------------------- DeadBandRT over histories
def h_deadbandrt(k):
    def h(I):
        from andes.core import discrete as D
        u = var(I, ['u_0'])
        lo, up = par(I, ['lo'], 'lower'), par(I, ['up'], 'upper')
        I.assume(LT(lo.v[0], up.v[0]))
        L = D.DeadBandRT(u, 0.0, lo, up)
        L.list2array(1)
        out = []
        # reference (docstring): zur set when previous zu and present zi; held while zi unchanged; cleared otherwise
        pzu = pzl = pzi = 0.0
        rzur = rzlr = 0.0
        for step in range(k):
            uu = I.real(f'u_{step}')
            u.v[0] = uu
            L.check_var()
            zu = LT(up.v[0], uu); zl = LT(uu, lo.v[0]); zi = NOT(OR(zu, zl))
            nzur = ITE(AND(EQ(pzu, 1), zi), 1.0, ITE(IFF(EQ(pzi, 1), zi), rzur, 0.0))
            nzlr = ITE(AND(EQ(pzl, 1), zi), 1.0, ITE(IFF(EQ(pzi, 1), zi), rzlr, 0.0))
            out.append((f'zur follows the documented return rule @step{step}', EQ(L.zur[0], nzur)))
            out.append((f'zlr follows the documented return rule @step{step}', EQ(L.zlr[0], nzlr)))
            pzu, pzl, pzi = ITE(zu, 1.0, 0.0), ITE(zl, 1.0, 0.0), ITE(zi, 1.0, 0.0)
            rzur, rzlr = nzur, nzlr
        return out
    return h


# --------------------------------------------------------------------------- history components
def _times(I, k):
    ts = [0.0] + [I.real(f't{j}') for j in range(1, k)]
    for j, t in enumerate(ts[1:], 1):
        I.assume(LE(0, t))
        # the initialisation stamp t = 0 may repeat only at the beginning (a simulation never rewinds to t0)
        if j >= 2:
            I.assume(IMPLIES(EQ(t, 0, tol=0.0), EQ(ts[j - 1], 0, tol=0.0)))
    return ts


def h_delay_step(d, k):
    """Delay(mode='step', delay=d): output = sample d accepted steps back; a repeated or rewound time
    replaces the newest sample; t = 0 re-initialises"""
    def h(I):
        from andes.core import discrete as D
        u = var(I, ['u_0'])
        L = D.Delay(u, mode='step', delay=d)
        L.list2array(1)
        L._v_mem, L.t, L.v = I.to_obj(L._v_mem), I.to_obj(L.t), I.to_obj(L.v)
        ts = _times(I, k)
        hist = []       # reference: list of [t, u]
        out = []
        for j, t in enumerate(ts):
            uu = I.real(f'u_{j}')
            u.v = I.arr(f'u_{j}') if False else u.v
            u.v[0] = uu
            L.check_var(t)
            if j == 0 or bool(EQ(t, 0, tol=0.0)):
                hist = [[0.0, uu] for _ in range(d + 1)]
            elif bool(LT(hist[-1][0], t)):
                hist = hist[1:] + [[t, uu]]
            else:
                hist[-1] = [t, uu]
            out.append((f'output = sample {d} steps back @call{j}', EQ(L.v[0], hist[0][1])))
        return out
    return h


def h_derivative(k):
    def h(I):
        from andes.core import discrete as D
        u = var(I, ['u_0'])
        L = D.Derivative(u)
        L.list2array(1)
        L._v_mem, L.t, L.v = I.to_obj(L._v_mem), I.to_obj(L.t), I.to_obj(L.v)
        ts = _times(I, k)
        out = []
        prev = None     # (t, u) of the previous accepted step, cur = newest
        cur = None
        for j, t in enumerate(ts):
            uu = I.real(f'u_{j}')
            u.v[0] = uu
            L.check_var(t)
            if j == 0 or bool(EQ(t, 0, tol=0.0)):
                prev, cur = (0.0, uu), (0.0, uu)
                want = 0.0
            elif bool(LT(cur[0], t)):
                prev, cur = cur, (t, uu)
                want = None
            elif bool(EQ(t, cur[0], tol=0.0)):
                cur = (t, uu)
                want = None
            else:
                cur = (t, uu)
                want = 0.0          # rewind resets the output
            if want is None:
                I.assume(NOT(EQ(cur[0], prev[0], tol=0.0)))
                dq = (cur[1] - prev[1]) / (cur[0] - prev[0])
                small = AND(LT(dq, 1e-8), LT(-1e-8, dq))
                out.append((f'output = (u - u_prev)/(t - t_prev) @call{j}', EQ(L.v[0], ITE(small, 0.0, dq))))
            else:
                out.append((f'output = 0 at start/rewind @call{j}', EQ(L.v[0], want)))
        return out
    return h


def h_average(d, k):
    def h(I):
        from andes.core import discrete as D
        u = var(I, ['u_0'])
        L = D.Average(u, mode='step', delay=d)
        L.list2array(1)
        L._v_mem, L.t, L.v = I.to_obj(L._v_mem), I.to_obj(L.t), I.to_obj(L.v)
        ts = _times(I, k)
        hist = []
        out = []
        for j, t in enumerate(ts):
            uu = I.real(f'u_{j}')
            u.v[0] = uu
            if j > 0:
                I.assume(LT(0, t))
            L.check_var(t)
            if j == 0:
                hist = [[0.0, 0.0] for _ in range(d)] + [[0.0, uu]]
                out.append(('average of a single sample is the sample', EQ(L.v[0], uu)))
                continue
            if bool(LT(hist[-1][0], t)):
                hist = hist[1:] + [[t, uu]]
            else:
                hist[-1] = [t, uu]
            span = hist[-1][0] - hist[0][0]
            I.assume(NOT(EQ(span, 0, tol=0.0)))
            area = 0.0
            for a, b in zip(hist[:-1], hist[1:]):
                area = area + 0.5 * (a[1] + b[1]) * (b[0] - a[0])
            out.append((f'output = trapezoidal mean over the stored window @call{j}', EQ(L.v[0], area / span)))
        return out
    return h


def h_sampling(k):
    def h(I):
        from andes.core import discrete as D
        u = var(I, ['u_0'])
        T = 1.0
        L = D.Sampling(u, interval=T, offset=0.0)
        L.list2array(1)
        # the harness replaces the stores by arrays that can hold symbols; what the real arrays can hold is claimed separately
        real_store_ok = bool(np.issubdtype(np.asarray(L._last_t).dtype, np.floating)) and bool(np.issubdtype(np.asarray(L._last_v).dtype, np.floating))
        L._last_v, L._last_t, L.v = I.to_obj(L._last_v), I.to_obj(L._last_t), I.to_obj(L.v)
        ts = _times(I, k)
        out = [('the stores of the last sample time and value hold real numbers (a sample time is not a whole number of seconds)', real_store_ok)]
        held, last_t, prev_held = None, 0.0, None
        for j, t in enumerate(ts):
            uu = I.real(f'u_{j}')
            u.v[0] = uu
            L.check_var(t)
            if j == 0 or bool(EQ(t, 0, tol=0.0)):
                held, prev_held = uu, uu
                last_t = last_t if j else 0.0
            elif bool(LT(last_t, t)):
                if bool(LT(T, t - last_t)):
                    prev_held, held, last_t = held, uu, t
            elif bool(EQ(t, last_t, tol=0.0)):
                held = uu
            else:
                held, last_t = prev_held, t
            out.append((f'output = held sample @call{j}', EQ(L.v[0], held)))
        return out
    return h


def h_antiwindup_disabled(I):
    """a disabled anti-windup limiter (enable=False) never flags, never pegs: state value and derivative are left alone"""
    from andes.core import discrete as D
    x = var(I, ['x0'], with_e=True, a0=3)
    v0, e0 = x.v.copy(), x.e.copy()
    lo, up = par(I, ['lo0'], 'lower'), par(I, ['up0'], 'upper')
    L = D.AntiWindup(x, lo, up, enable=False)
    L.list2array(1)
    L.check_var()
    L.check_eq(niter=0)
    return [('a disabled anti-windup limiter keeps zi = 1, zl = zu = 0', AND(EQ(L.zi[0], 1, tol=0.0), EQ(L.zl[0], 0, tol=0.0), EQ(L.zu[0], 0, tol=0.0))),
            ('... and touches neither the state nor its derivative', AND(EQ(x.v[0], v0[0], tol=0.0), EQ(x.e[0], e0[0], tol=0.0), len(L.x_set) == 0))]


def h_switcher_after_set(I):
    """real Model.set on the parameter a Switcher reads, then the real check_var: the flags describe the NEW value"""
    from collections import OrderedDict
    from andes.core import discrete as D
    import andes.core.model.model as MM
    NS_ = __import__('types').SimpleNamespace
    par_ = NS_(name='MODE', v=np.array([1.0]))
    sw = D.Switcher(u=par_, options=(0, 1, 2, 3))
    sw.list2array(1)                                       # evaluated (and cached) at set-up, as in System.setup
    new = I.real('new_mode')
    I.assume(OR(*[EQ(new, k, tol=0.0) for k in (0, 1, 2, 3)]))
    if I.symbolic:
        par_.v = pysym.oarr([pysym.SR(z3.RealVal(1))])
    fake = NS_(idx2uid=lambda idx: 0, MODE=par_, states=OrderedDict(), discrete=OrderedDict(SW=sw), system=NS_(dae=NS_(Tf=np.zeros(1))))
    MM.Model.set(fake, 'MODE', 'dev', 'v', new)
    sw.check_var()                                         # what l_update_var calls in every iteration
    flags = [sw.s0, sw.s1, sw.s2, sw.s3]
    return [(f'after the parameter was set, flag s{k} is 1 exactly if the new value is option {k}',
             IFF(EQ(np.ravel(flags[k])[0], 1, tol=0.0), EQ(new, k, tol=0.0))) for k in range(4)]


def h_antiwindup_registry(I):
    """real System.store_adder_setter on two models that each own an anti-windup limiter of the SAME name (names are unique only
    within a model): the list the integrator uses to peg states holds every limiter of every model with devices, once"""
    from collections import OrderedDict
    import andes.system as SY
    from andes.core import discrete as D
    NS_ = __import__('types').SimpleNamespace

    def model(n):
        lim = D.AntiWindup(u=NS_(name='y', v=np.zeros(1), a=np.zeros(1, dtype=int)), lower=0.0, upper=1.0, name='LAG_lim')
        other = D.Limiter(u=NS_(name='y', v=np.zeros(1)), lower=0.0, upper=1.0, name='HL')
        empty = OrderedDict()
        return NS_(n=n, discrete=OrderedDict(LAG_lim=lim, HL=other), cache=NS_(refresh=lambda *a: None, v_getters=empty, v_adders=empty, e_adders=empty,
                                                                         v_setters=empty, e_setters=empty)), lim
    (m1, l1), (m2, l2), (m3, l3) = model(1), model(2), model(0)
    fake = NS_(antiwindups=[], _getters=dict(x=[], y=[]), _adders=dict(x=[], y=[], f=[], g=[]), _setters=dict(x=[], y=[], f=[], g=[]))
    fake._clear_adder_setter = lambda: (fake.antiwindups.clear())
    SY.System.store_adder_setter(fake, OrderedDict(TGOV1=m1, GAST=m2, IDLE=m3))
    ids = [id(x) for x in fake.antiwindups]
    return [('every anti-windup limiter of every model with devices is registered, once, whatever its name', sorted(ids) == sorted([id(l1), id(l2)])),
            ('a model without devices contributes nothing', id(l3) not in ids)]


def region_of(values, cname):
    return cname.split('@')[0].split('[')[0].strip()


def job(spec):
    name, kind, args = spec
    if kind == 'swset':
        return H.run(name, h_switcher_after_set, region=lambda v, c: 'flags follow the parameter after Model.set')
    if kind == 'awoff':
        return H.run(name, h_antiwindup_disabled, region=lambda v, c: c)
    if kind == 'awreg':
        return H.run(name, h_antiwindup_registry, region=lambda v, c: c)
    fn = {'limiter': h_limiter, 'adjust': h_limiter_adjust, 'aw': h_antiwindup, 'rate': h_ratelimiter,
          'lessthan': h_lessthan, 'isequal': lambda: h_isequal, 'switcher': lambda: h_switcher,
          'selector': h_selector, 'sorted': lambda: h_sortedlimiter, 'dbrt': h_deadbandrt,
          'delay': h_delay_step, 'deriv': h_derivative, 'avg': h_average, 'sampling': h_sampling}[kind](*args)
    return H.run(name, fn, timeout_ms=10000, max_paths=6000, region=region_of)


def specs(thorough):
    S = []
    for cls in ('Limiter', 'HardLimiter'):
        for equal in (True, False):
            for sl, su in ((1, 1), (-1, 1), (1, -1)):
                S.append((f'{cls}.check_var(equal={equal},signs=({sl},{su}))', 'limiter', (cls, equal, sl, su, False, False)))
        S.append((f'{cls}.check_var(no_lower)', 'limiter', (cls, True, 1, 1, True, False)))
        S.append((f'{cls}.check_var(no_upper)', 'limiter', (cls, True, 1, 1, False, True)))
    S.append(('DeadBand.check_var', 'limiter', ('DeadBand', False, 1, 1, False, False)))
    for allow, adj in ((True, True), (True, False), (False, True)):
        S.append((f'Limiter.check_var(is_init,allow_adjust={allow},adjust={adj})', 'adjust', ((allow, adj),)))
    for cls in ('AntiWindup', 'AntiWindupRate'):
        for niter in (0, 4, 5):
            for zp in ((0, 0), (1, 0), (0, 1)):
                if niter <= 4 and zp != (0, 0) and not thorough:
                    continue
                S.append((f'{cls}.check_eq(niter={niter},prev=(zu={zp[0]},zl={zp[1]}))', 'aw', (niter, zp[0], zp[1], cls)))
        S.append((f'{cls}.check_eq(no_lower)', 'aw', (0, 0, 0, cls, True, False)))
        S.append((f'{cls}.check_eq(no_upper)', 'aw', (0, 0, 0, cls, False, True)))
    for cl, cu in ((1, 1), (1, 0), (0, 1), (0, 0)):
        S.append((f'RateLimiter.check_eq(cond=({cl},{cu}))', 'rate', (cl, cu)))
    for equal in (True, False):
        for cache in (True, False):
            S.append((f'LessThan.check_var(equal={equal},cache={cache})', 'lessthan', (equal, True, cache)))
    S.append(('LessThan.check_var(disabled)', 'lessthan', (False, False, False)))
    S.append(('IsEqual.check_var', 'isequal', ()))
    S.append(('Switcher.check_var', 'switcher', ()))
    S.append(('Selector(max)', 'selector', ('max',)))
    S.append(('Selector(min)', 'selector', ('min',)))
    S.append(('SortedLimiter.check_var(n=3,n_select=1)', 'sorted', ()))
    kk = 4 if thorough else 3
    S.append((f'DeadBandRT.check_var(history={kk})', 'dbrt', (kk,)))
    for d in (1, 2):
        S.append((f'Delay(step,delay={d}).check_var(calls={kk + 1})', 'delay', (d, kk + 1)))
    S.append((f'Derivative.check_var(calls={kk + 1})', 'deriv', (kk + 1,)))
    for d in (1, 2):
        S.append((f'Average(step,delay={d}).check_var(calls={kk})', 'avg', (d, kk)))
    S.append((f'Sampling.check_var(calls={kk + 1})', 'sampling', (kk + 1,)))
    S.append(('System.store_adder_setter anti-windup registry', 'awreg', ()))
    S.append(('AntiWindup(enable=False).check_eq', 'awoff', ()))
    S.append(('Switcher after Model.set', 'swset', ()))
    return S


def main():
    ck = core.Check(PID, 'other',
                    'Bounded symbolic execution of the real check_var/check_eq of every discrete class on symbolic inputs, '
                    'limits, equation values and time stamps; z3 decides per path the flag semantics, pegging effects and '
                    'equality with reference definitions for all histories within the bound; counterexamples are replayed '
                    'through the same harness on float arrays.')
    from andes.core import discrete as D
    for c in (D.Limiter, D.SortedLimiter, D.AntiWindup, D.RateLimiter, D.AntiWindupRate, D.LessThan, D.IsEqual, D.Switcher,
              D.Selector, D.DeadBand, D.DeadBandRT, D.Delay, D.Average, D.Derivative, D.Sampling):
        for mname in ('check_var', 'check_eq', 'list2array', 'do_adjust_lower', 'do_adjust_upper'):
            if mname in c.__dict__:
                ck.encodes(c.__dict__[mname])
    thorough = core.tier() == 'thorough'
    ck.bound(vector_length='<= 3', history_calls='<= 5 (thorough) / 4 (quick)', niter='{0,4,5} around niter_lock=4',
             values='all reals')
    ck.stub('numpy.isnan on symbolic reals returns False (Switcher)', 'Limiter._show_adjust (logging table) -> no-op in exploration')
    ck.assume('floats abstracted as reals', 'history components: first call is at t=0, later stamps are >= 0, and t=0 recurs only before the first positive stamp',
              'Average: stamps > 0 after the first call and non-degenerate window (span != 0)')
    ck.out('whole-simulation clamping (trapezoid overshoot): see DESIGN.md C09', 'ShuntAdjust', 'Delay in time mode beyond 4 calls',
           'degenerate limit pairs lower >= upper: exclusivity not claimed there (comparison agreement is)')
    res = core.pmap(job, specs(thorough))
    ck.merge(res)
    for s in specs(thorough)[:6]:
        ck.sample({'harness': s[0]})
    ck.finish()


if __name__ == '__main__':
    core.run_main(main)
