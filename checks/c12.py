"""
C12  Island detection and status propagation match the network graph.

The real System.connectivity (rebound to the kvshim sparse stub) runs under pysym on real
small Systems whose line / jumper / slack statuses are symbolic 0/1 values: the solver splits
the on/off patterns (exhaustive within the bound) and per path decides that the reported
isolated buses, island sets, partition and slack classification equal those of the graph
(transitive closure written here as a formula over the status symbols).  The real
ConnMan.init/act runs on symbolic bus statuses: exactly the devices attached to an
offline bus are switched off.  Counterexamples are replayed on the unmodified code with real
kvxopt and float arrays.
"""
import itertools
import types

import numpy as np
import z3

from vlib import core, pysym, kvshim, cases, harness as H
from vlib.harness import AND, OR, NOT, IFF, IMPLIES, EQ, LE, LT

PID = 'C12'

TOPO = {
    # name: (n buses, lines, jumpers, slack buses)
    'path3': (3, [(1, 2), (2, 3)], [], [1]),
    'tri+parallel': (3, [(1, 2), (2, 3), (1, 3), (1, 2)], [], [1, 3]),
    'cycle4+chord': (4, [(1, 2), (2, 3), (3, 4), (4, 1), (1, 3)], [], [1, 4]),
    'star4': (4, [(1, 2), (1, 3), (1, 4)], [], [2]),
    'two-pairs': (4, [(1, 2), (3, 4)], [], [1, 3]),
    # two slack generators on ONE bus: an island with them has several enabled slacks
    'path3+twin-slack': (3, [(1, 2), (2, 3)], [], [1, 1]),
    'five+jumper': (5, [(1, 2), (2, 3), (3, 4), (4, 5), (5, 1)], [(2, 4)], [1, 5]),
    # three multi-bus groups with interleaved bus numbers {1,4,7} {2,3} {5,6,8}, joined by two switchable ties
    'interleaved8': (8, [(1, 4), (4, 7), (2, 3), (5, 6), (6, 8), (7, 2), (3, 5)], [], [1, 5]),
}
# lines whose status stays 1 (only the others are symbolic) -- keeps the 8-bus case cheap in the quick tier
FIXED_ON = {'interleaved8': [0, 1, 2, 3, 4]}
QUICK = ['path3', 'tri+parallel', 'cycle4+chord', 'two-pairs', 'interleaved8', 'path3+twin-slack']

_SYS = {}


def get_sys(name, with_devices=False):
    key = (name, with_devices)
    if key not in _SYS:
        n, lines, jumpers, slacks = TOPO[name]
        kw = {}
        if with_devices:
            # device indices deliberately include the falsy value 0
            kw = dict(pqs=[dict(bus=b, idx=b - 1) for b in range(1, n + 1)] + [dict(bus=1, idx='PQ1b')],
                      shunts=[dict(bus=2, idx=0)],
                      pvs=[dict(bus=b, idx=f'PV{b}') for b in range(1, n + 1) if b not in slacks] + [dict(bus=slacks[0], idx='PVs')])
        if with_devices:
            lines = [dict(bus1=a, bus2=b, idx=k) for k, (a, b) in enumerate(lines)]      # Line idx 0, 1, ...
        ss = cases.build(list(range(1, n + 1)), lines=lines, jumpers=jumpers,
                         slacks=[dict(bus=b, idx=(f'SL{b}' if slacks.count(b) == 1 else f'SL{b}_{k}')) for k, b in enumerate(slacks)], **kw)
        _SYS[key] = ss
    return _SYS[key]


def shim_connectivity():
    import andes.system as SY
    f = SY.System.connectivity
    g = dict(f.__globals__)
    g.update(spmatrix=kvshim.spmatrix, sparse=kvshim.sparse, matrix=kvshim.matrix)
    return types.FunctionType(f.__code__, g, f.__name__, f.__defaults__, f.__closure__)


def closure(n, edges, on):
    """reach[i][j]: i and j connected through in-service edges (Floyd-Warshall over claims)"""
    R = [[(i == j) for j in range(n)] for i in range(n)]
    for (a, b), o in zip(edges, on):
        if a != b:
            R[a][b] = OR(R[a][b], o)
            R[b][a] = OR(R[b][a], o)
    for k in range(n):
        for i in range(n):
            for j in range(n):
                R[i][j] = OR(R[i][j], AND(R[i][k], R[k][j]))
    return R


def h_connectivity(name):
    def h(I):
        ss = get_sys(name)
        n, lines, jumpers, slacks = TOPO[name]
        fixed = FIXED_ON.get(name, []) if core.tier() != 'thorough' else []
        ul = I.arr(*[(1.0 if k in fixed else f'uL{k}') for k in range(len(lines))])
        uj = I.arr(*[f'uJ{k}' for k in range(len(jumpers))]) if jumpers else np.zeros(0)
        us = I.arr(*[f'uS{k}' for k in range(len(slacks))])
        for v in list(ul) + list(uj) + list(us):
            I.assume(OR(EQ(v, 0, tol=0.0), EQ(v, 1, tol=0.0)))
        ss.Line.u.v = ul
        if jumpers:
            ss.Jumper.u.v = uj
        ss.Slack.u.v = us
        ss.TDS.initialized = False
        if I.symbolic:
            shim_connectivity()(ss, info=False)
        else:
            ss.connectivity(info=False)          # the unmodified method with real kvxopt
        B = ss.Bus
        edges = [(a - 1, b - 1) for a, b in lines] + [(a - 1, b - 1) for a, b in jumpers]
        on = [NOT(EQ(v, 0, tol=0.0)) for v in list(ul) + list(uj)]
        R = closure(n, edges, on)
        out = []
        isol = [NOT(OR(*[o for (a, b), o in zip(edges, on) if i in (a, b)])) if any(i in e for e in edges) else True
                for i in range(n)]
        for i in range(n):
            out.append((f'isolated bus reported <=> degree 0 [{i}]', IFF(i in B.islanded_buses, isol[i])))
            cnt = sum(1 for S in B.island_sets if i in S)
            out.append((f'bus in exactly one island set unless isolated [{i}]', IFF(cnt == 1, NOT(isol[i]))))
            out.append((f'bus in at most one island set [{i}]', cnt <= 1))
            tot = sum(1 for S in B.islands if i in S)
            out.append((f'islands is a partition [{i}]', tot == 1))
        for i, j in itertools.combinations(range(n), 2):
            same = any(i in S and j in S for S in B.island_sets)
            out.append((f'same island <=> connected [{i},{j}]', IFF(same, R[i][j])))
        out.append(('n_islanded_buses consistent', B.n_islanded_buses == len(B.islanded_buses)))
        out.append(('island sets hold no duplicates', all(len(set(S)) == len(S) for S in B.island_sets)))
        for k, S in enumerate(B.island_sets):
            ns = 0
            for q, sb in enumerate(slacks):
                ns = ns + H.ITE(AND(EQ(us[q], 1, tol=0.0), (sb - 1) in S), 1.0, 0.0)
            out.append((f'island without enabled slack <=> listed in nosw [{k}]', IFF(k in B.nosw_island, EQ(ns, 0))))
            out.append((f'island with several enabled slacks <=> listed in msw [{k}]', IFF(k in B.msw_island, LE(2, ns))))
        # addresses used for neutralising isolated buses
        ia, iv = list(np.atleast_1d(B.islanded_a)), list(np.atleast_1d(B.islanded_v))
        out.append(('islanded_a/v are the a/v addresses of the isolated buses',
                    [int(x) for x in ia] == [int(B.a.a[i]) for i in B.islanded_buses] and
                    [int(x) for x in iv] == [int(B.v.a[i]) for i in B.islanded_buses]))
        return out
    return h


DEPS = {'Line': ['bus1', 'bus2'], 'Jumper': ['bus1', 'bus2'], 'PQ': ['bus'], 'PV': ['bus'], 'Slack': ['bus'],
        'Shunt': ['bus']}


def h_connman(name):
    def h(I):
        from andes.core.connman import ConnMan
        ss = get_sys(name, with_devices=True)
        n = TOPO[name][0]
        for mn in DEPS:
            m = ss.models[mn]
            if m.n:
                m.u.v = np.ones(m.n)
        ss.TDS.initialized = False
        ub = I.arr(*[f'uB{k}' for k in range(n)])
        for v in ub:
            I.assume(OR(EQ(v, 0, tol=0.0), EQ(v, 1, tol=0.0)))
        ss.Bus.u.v = ub
        ss.conn = ConnMan(ss)
        ss.conn.init()
        out = []
        off = {ss.Bus.idx.v[k]: EQ(ub[k], 0, tol=0.0) for k in range(n)}
        for mn, fields in DEPS.items():
            m = ss.models[mn]
            for d in range(m.n):
                anyoff = OR(*[off[m.__dict__[f].v[d]] for f in fields])
                out.append((f'{mn}[{m.idx.v[d]}] is off <=> one of its buses is off',
                            IFF(EQ(m.u.v[d], 0, tol=0.0), anyoff)))
        return out
    return h


def h_connman_seq(name):
    """two separate Bus.set(u=...) calls after setup, then ConnMan.act(): every bus that is off must have its
    devices switched off (a multi-step history)"""
    def h(I):
        from andes.core.connman import ConnMan
        ss = get_sys(name, with_devices=True)
        n = TOPO[name][0]
        for mn in DEPS:
            m = ss.models[mn]
            if m.n:
                m.u.v = np.ones(m.n)
        ss.TDS.initialized = False
        ss.Bus.u.v = I.to_obj(np.ones(n))
        ss.conn = ConnMan(ss)
        ss.conn.init()
        ss.is_setup = True
        vals = [I.real('first_value'), I.real('second_value')]
        for v in vals:
            I.assume(OR(EQ(v, 0, tol=0.0), EQ(v, 1, tol=0.0)))
        b1, b2 = ss.Bus.idx.v[0], ss.Bus.idx.v[n - 1]
        ss.Bus.set(src='u', attr='v', idx=b1, value=vals[0])
        ss.Bus.set(src='u', attr='v', idx=b2, value=vals[1])
        ss.conn.act()
        out = []
        off = {ss.Bus.idx.v[k]: EQ(ss.Bus.u.v[k], 0, tol=0.0) for k in range(n)}
        for mn, fields in DEPS.items():
            m = ss.models[mn]
            for d in range(m.n):
                anyoff = OR(*[off[m.__dict__[f].v[d]] for f in fields])
                out.append((f'after two Bus.set calls {mn}[{m.idx.v[d]}] is off <=> one of its buses is off',
                            IFF(EQ(m.u.v[d], 0, tol=0.0), anyoff)))
        return out
    return h


def region_of(values, cname):
    c = cname.split('[')[0].strip()
    if cname == 'no exception':
        on = [k for k, v in values.items() if k.startswith('uL') or k.startswith('uJ')]
        if on and all(values[k] == 0 for k in on):
            return 'no exception: every series device off'
        offb = [k for k, v in values.items() if k.startswith('uB') and v == 0]
        if len(offb) >= 2:
            return 'no exception: two or more buses off'
    return c


def job(spec):
    kind, name = spec
    if kind == 'conn':
        return H.run(f'System.connectivity[{name}]', h_connectivity(name), timeout_ms=10000, max_paths=3000,
                     region=region_of)
    if kind == 'connseq':
        return H.run(f'Bus.set x2 + ConnMan.act[{name}]', h_connman_seq(name), timeout_ms=10000, max_paths=3000, region=region_of)
    return H.run(f'ConnMan.init/act[{name}]', h_connman(name), timeout_ms=10000, max_paths=3000, region=region_of)


def h_jumper(I):
    """declared equations of the real Jumper (independent parser): closed -> the two buses share angle and voltage; open -> it carries
    neither active nor reactive power"""
    from vlib import modelsmt, eqsmt
    m = modelsmt.system().models['Jumper']
    vals = {n: I.real(n) for n in ('u', 'a1', 'a2', 'v1', 'v2', 'p', 'q')}
    I.assume(OR(EQ(vals['u'], 0, tol=0.0), EQ(vals['u'], 1, tol=0.0)))

    def ev(s):
        if I.symbolic:
            names = eqsmt.Names()
            for k, v in vals.items():
                names[k] = eqsmt.S(pysym.lift(v))
            return pysym.SR(eqsmt.tos(eqsmt.ev_str(s, names, eqsmt.NS_DECL)).re)
        return eqsmt.nev_str(s, {k: float(v) for k, v in vals.items()})
    ep, eq_ = ev(m.p.e_str), ev(m.q.e_str)
    at_rest = AND(EQ(ep, 0, tol=0.0), EQ(eq_, 0, tol=0.0))
    closed, opened = EQ(vals['u'], 1, tol=0.0), EQ(vals['u'], 0, tol=0.0)
    return [('a closed jumper ties the angles and the voltages of its two buses', IMPLIES(AND(at_rest, closed), AND(EQ(vals['a1'], vals['a2'], tol=0.0), EQ(vals['v1'], vals['v2'], tol=0.0)))),
            ('an open jumper carries neither active nor reactive power', IMPLIES(AND(at_rest, opened), AND(EQ(vals['p'], 0, tol=0.0), EQ(vals['q'], 0, tol=0.0)))),
            ('what it takes from one bus it gives to the other', m.a1.e_str.replace(' ', '') == 'p' and m.a2.e_str.replace(' ', '') == '-p' and m.v1.e_str.replace(' ', '') == 'q'
             and m.v2.e_str.replace(' ', '') == '-q')]


def h_island_without_machines(I):
    """the connectivity check that follows a switching event, on a system whose largest island holds no synchronous machine"""
    import andes.models.group as GR
    from vlib import cases as CS
    ss = CS.build([1, 2, 3], lines=[dict(bus1=1, bus2=2, idx='L1'), dict(bus1=2, bus2=3, idx='L2')], slacks=[dict(bus=1, idx='S')],
                  pqs=[dict(bus=3, idx='D', p0=0.1, q0=0.0)], setup=False,
                  extra=[('PV', dict(bus=3, idx='G3', p0=0.05)), ('GENCLS', dict(bus=3, gen='G3', idx='M3', M=5.0))])
    ss.setup()
    ss.PFlow.run()
    ss.TDS.config.no_tqdm = 1
    ss.TDS.init()          # the look-up needs the addresses of the machine states
    raised = None
    try:
        ss.SynGen.store_idx_island([1, 2])          # the largest island after bus 3 was cut off: no machine on it
    except (IndexError, KeyError) as e:
        raised = repr(e)
    ok_empty = raised is None and len(ss.SynGen.idx_island) == 0 and len(ss.SynGen.delta_addr) == 0
    ss.SynGen.store_idx_island([3, 2])
    return [('an island without machines yields an empty machine set (no exception)', ok_empty),
            ('an island with a machine yields that machine', list(ss.SynGen.idx_island) == ['M3'])]


def main():
    ck = core.Check(PID, 'other',
                    'Real System.connectivity (kvxopt replaced by a dictionary stub, differential-tested at every run) and real '
                    'ConnMan.init/act executed on symbolic 0/1 statuses; z3 splits the on/off patterns exhaustively within the '
                    'bound and decides per path: isolated buses = degree-0 nodes, island sets = connected components (transitive '
                    'closure formula), islands a partition, slack classification, neutralising addresses, and that exactly the '
                    'devices attached to an offline bus are switched off.')
    import andes.system as SY
    import andes.core.connman as CM
    import andes.models.group as GR
    import andes.core.model.modeldata as MD
    ck.encodes(SY.System.connectivity, SY.System.g_islands, CM.ConnMan.init, CM.ConnMan._update, CM.ConnMan.act,
               GR.GroupBase.find_idx, GR.GroupBase.set, MD.ModelData.find_idx)
    thorough = core.tier() == 'thorough'
    names = list(TOPO) if thorough else QUICK
    ck.bound(topologies=names, buses='<= 5', series_devices='<= 6', slacks='<= 2', statuses='every 0/1 pattern (solver split)')
    bad = kvshim.selftest(core.seed(), 100)
    ck.stub('kvxopt.spmatrix/sparse/matrix -> vlib.kvshim (symbolic exploration only; replays use real kvxopt)')
    ck.extra['kvshim_disagreements_with_kvxopt'] = bad
    if bad:
        ck.errors.append(f'kvshim disagrees with kvxopt on {bad} concrete cases')
    ck.assume('statuses are exactly 0 or 1')
    ck.out('topologies beyond the catalogue', 'bus switching after TDS initialisation (NotImplemented in ANDES)',
           'Fortescue devices')
    jobs = [('conn', n) for n in names] + [('connman', n) for n in (names if thorough else ['path3', 'two-pairs'])] \
        + [('connseq', n) for n in (['path3', 'two-pairs', 'cycle4+chord'] if thorough else ['two-pairs'])]
    ck.merge(core.pmap(job, jobs))
    ck.merge(H.run('Jumper equations', h_jumper, region=lambda v, c: c))
    ck.merge(H.run('SynGen.store_idx_island', h_island_without_machines, region=lambda v, c: c))
    for n in names[:4]:
        ck.sample({'topology': n, 'buses': TOPO[n][0], 'lines': TOPO[n][1], 'jumpers': TOPO[n][2], 'slack_buses': TOPO[n][3]})
    ck.finish()


if __name__ == '__main__':
    core.run_main(main)
