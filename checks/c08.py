"""
C08  Eigenvalue analysis reports the true small-signal modes of the DAE.

Real EIG.calc_As / _reduce / _reorder / find_zero_states run under pysym on fully symbolic
blocks fx, fy, gx, gy and time constants (dense stub for kvxopt, linear solves as fresh
unknowns with their defining equations), for EVERY pattern of zero time constants within the
bound; z3 decides entry-wise that the returned state matrix is
      T_D^-1 ( F_DD - F_DZ F_ZZ^-1 F_ZD ),   F = fx - fy gy^-1 gx,
(D = states with T != 0, Z = states with T = 0 treated as algebraic) and that the reported
state names are those of D in order.  _store_stats on symbolic real parts: the three counts
partition the eigenvalues.  calc_pfactor with the LAPACK calls stubbed by an arbitrary
invertible eigenvector matrix: factors >= 0, every mode's factors sum to 1, and the report's
"most associated state" is an arg-max.  Replays run the unmodified methods on kvxopt/numpy.
"""
import ast
import inspect
import itertools
import textwrap
import types

import numpy as np
import z3

from vlib import core, pysym, dshim, harness as H
from vlib.harness import AND, OR, NOT, IFF, IMPLIES, EQ, LE, LT, ITE

PID = 'C08'
NS = types.SimpleNamespace
REFRESH = []          # calls of the stand-in system's refresh hooks, per process


def fake_system(dae):
    """stand-in for System as EIG sees it: the analysis must ask for current time constants and Jacobians before reducing"""
    ss = NS(dae=dae, exist=NS(tds={}, pflow_tds={}), TDS=NS(initialized=True))
    ss._store_tf = lambda models: REFRESH.append('Tf')
    ss.j_update = lambda models=None, **k: REFRESH.append('J')
    return ss



class _Log:
    def debug(self, *a, **k): pass
    info = warning = error = debug


def rebind(f, **extra):
    g = dict(f.__globals__)
    g.update(matrix=dshim.matrix, spmatrix=dshim.spmatrix, sparse=dshim.sparse, spdiag=dshim.spdiag, logger=_Log())
    g.update(extra)
    return types.FunctionType(f.__code__, g, f.__name__, f.__defaults__, f.__closure__)


def sym_eig():
    """an object with the real EIG methods bound to the dense stub"""
    from andes.routines.eig import EIG

    class E:
        pass
    for nm in ('calc_As', '_reduce', '_reorder', 'find_zero_states'):
        setattr(E, nm, rebind(getattr(EIG, nm)))
    e = E()
    e.solver = NS(linsolve=dshim.linsolve)
    e.zstate_idx = np.array([], dtype=int)       # as EIG.__init__ leaves it
    e.nz_counts = 0
    return e


def real_eig(n, m, fx, fy, gx, gy, Tf, names):
    """the unmodified EIG methods on real kvxopt data"""
    del REFRESH[:]
    import kvxopt
    from andes.routines.eig import EIG
    from andes.linsolvers.solverbase import Solver
    e = EIG.__new__(EIG)
    sp = lambda a, r, c: kvxopt.sparse(kvxopt.matrix(np.array(a, dtype=float).reshape(r, c)))
    dae = NS(n=n, m=m, fx=sp(fx, n, n), fy=sp(fy, n, m), gx=sp(gx, m, n), gy=sp(gy, m, m), Tf=np.array(Tf, dtype=float),
             x_name=list(names))
    e.system = fake_system(dae)
    e.solver = Solver('klu')
    e.config = NS(tol=1e-6)
    e.zstate_idx = np.array([], dtype=int)
    e.nz_counts = 0
    return e, dae


def h_state_matrix(n, m, zpat, first=None):
    zpat = tuple(zpat)
    D = [i for i in range(n) if not zpat[i]]
    Z = [i for i in range(n) if zpat[i]]

    def h(I):
        fx = [[I.real(f'fx{i}{j}') for j in range(n)] for i in range(n)]
        fy = [[I.real(f'fy{i}{j}') for j in range(m)] for i in range(n)]
        gx = [[I.real(f'gx{i}{j}') for j in range(n)] for i in range(m)]
        gy = [[I.real(f'gy{i}{j}') for j in range(m)] for i in range(m)]
        T = [(0.0 if zpat[i] else I.real(f'T{i}')) for i in range(n)]
        for i in D:
            I.assume(LT(0, T[i]))
        names = [f'x{i}' for i in range(n)]
        dgy = dshim.det(gy)
        I.assume(NOT(EQ(dgy, 0, tol=1e-9)))
        # F = fx - fy gy^-1 gx, division-free through the adjugate: dgy*F = dgy*fx - fy adj(gy) gx
        A = dshim.adj(gy)
        dF = [[dgy * fx[i][j] - sum(fy[i][k] * A[k][l] * gx[l][j] for k in range(m) for l in range(m))
               for j in range(n)] for i in range(n)]
        if Z:
            dFzz = dshim.det([[dF[a][b] for b in Z] for a in Z])
            I.assume(NOT(EQ(dFzz, 0, tol=1e-9)))      # the zero-T states must be eliminable (non-singular block)
        if I.symbolic:
            e = sym_eig()
            Tf = np.empty(n, dtype=object)
            for i in range(n):
                Tf[i] = T[i]
            dae = NS(n=n, m=m, fx=dshim.M(fx, (n, n)), fy=dshim.M(fy, (n, m)), gx=dshim.M(gx, (m, n)),
                     gy=dshim.M(gy, (m, m)), Tf=Tf, x_name=list(names))
            e.system = fake_system(dae)
            if first is not None:          # an earlier analysis on the same object with other time constants
                Tf1 = np.empty(n, dtype=object)
                for i in range(n):
                    Tf1[i] = 0.0 if first[i] else 1.0
                dae.Tf = Tf1
                e.calc_As()
                dae.Tf = Tf
                dae.x_name = list(names)
            As = e.calc_As()
            ent = lambda i, j: As[i, j]
            shape = As.size
        else:
            e, dae = real_eig(n, m, fx, fy, gx, gy, T, names)
            if first is not None:
                dae.Tf = np.array([0.0 if first[i] else 1.0 for i in range(n)])
                try:
                    e.calc_As()
                except Exception:
                    pass
                dae.Tf = np.array(T, dtype=float)
                dae.x_name = list(names)
            As = e.calc_As()
            As = np.array(As).reshape(As.size, order='F') if not isinstance(As, np.ndarray) else As
            import kvxopt
            ent = lambda i, j: As[i][j]
            shape = As.shape
        out = [('state matrix has one row/column per state with non-zero time constant', tuple(shape) == (len(D), len(D))),
               ('reported state names are exactly the remaining states', sorted(e.x_name) == sorted(names[i] for i in D)),
               ('the analysis asks for the current time constants and Jacobians before it reduces them (the simulation updates them lazily)',
                'Tf' in REFRESH and 'J' in REFRESH)]
        del REFRESH[:]
        if tuple(shape) != (len(D), len(D)) or sorted(e.x_name) != sorted(names[i] for i in D):
            return out
        Dn = [names.index(nm) for nm in e.x_name]      # row/column a of the result belongs to the state it is named after
        # expected: T_D^-1 (F_DD - F_DZ F_ZZ^-1 F_ZD); with G = dgy*F and adjugate of G_ZZ:
        #   dgy * det(G_ZZ) * T_i * As_ij  ==  det(G_ZZ)*G_ij - sum G_iZ adj(G_ZZ) G_Zj
        if Z:
            Gzz = [[dF[a][b] for b in Z] for a in Z]
            dz = dshim.det(Gzz)
            Az = dshim.adj(Gzz)
        for a, i in enumerate(Dn):
            for b, j in enumerate(Dn):
                if Z:
                    rhs = dz * dF[i][j] - sum(dF[i][Z[k]] * Az[k][l] * dF[Z[l]][j] for k in range(len(Z)) for l in range(len(Z)))
                    lhs = dgy * dz * T[i] * ent(a, b)
                else:
                    rhs = dF[i][j]
                    lhs = dgy * T[i] * ent(a, b)
                out.append((f'As[{a},{b}] = T^-1 (Schur complement of the algebraic and zero-T blocks)', EQ(lhs, rhs, tol=1e-7)))
        return out
    return h


class CArr:
    """symbolic complex vector: what `self.mu` is to _store_stats (real, imag, abs)"""

    def __init__(self, re, im):
        self.real, self.imag = re, im

    def __abs__(self):
        out = np.empty(len(self.real), dtype=object)
        for i in range(len(out)):
            out[i] = (self.real[i] * self.real[i] + self.imag[i] * self.imag[i]).sqrt()
        return out

    def __len__(self):
        return len(self.real)


def h_store_stats(n=3):
    def h(I):
        from andes.routines.eig import EIG
        re = I.arr(*[f're{i}' for i in range(n)])
        im = I.arr(*[f'im{i}' for i in range(n)])
        tol = I.real('tol')
        I.assume(LT(0, tol))
        mu = CArr(re, im) if I.symbolic else (np.array(re, dtype=float) + 1j * np.array(im, dtype=float))
        e = NS(mu=mu, config=NS(tol=tol))
        EIG._store_stats(e)
        pos = sum(ITE(LT(tol, re[i]), 1.0, 0.0) for i in range(n))
        neg = sum(ITE(LT(re[i], -tol), 1.0, 0.0) for i in range(n))
        zer = sum(ITE(AND(LE(-tol, re[i]), LE(re[i], tol)), 1.0, 0.0) for i in range(n))
        return [('positive + zero + negative = number of eigenvalues', e.n_positive + e.n_zeros + e.n_negative == n),
                ('n_positive counts re > tol', EQ(e.n_positive, pos)),
                ('n_zeros counts |re| <= tol', EQ(e.n_zeros, zer)),
                ('n_negative counts re < -tol', EQ(e.n_negative, neg))]
    return h


def h_sweep(n=2, rounds=2):
    """EIG.run() followed by EIG.sweep(): whatever sweep leaves in EIG.mu, the counts, eigenvectors and participation
    factors stored next to it must belong to the same analysis (the property quantifies over operating points
    'including after parameter sweeps').  The real sweep and _store_stats run; calc_As and the LAPACK-backed
    calc_eig/calc_pfactor are stand-ins returning arbitrary eigenvalues per round, tagged with the round."""
    def h(I):
        from andes.routines.eig import EIG
        tol = I.real('tol')
        I.assume(LT(0, tol))
        mus, res = [], []
        for k in range(rounds + 1):
            re = I.arr(*[f'r{k}_re{i}' for i in range(n)])
            im = I.arr(*[f'r{k}_im{i}' for i in range(n)])
            res.append(re)
            mus.append(CArr(re, im) if I.symbolic else (np.array(re, dtype=float) + 1j * np.array(im, dtype=float)))
        st = NS(round=0)

        class E:
            pass
        E.sweep = rebind(EIG.sweep)
        E._store_stats = EIG._store_stats
        e = E()
        e.config = NS(tol=tol)
        e.system = NS(TDS=NS(init=lambda: True, itm_step=lambda: True, initialized=True))

        def calc_As(*a, **k):
            st.round += 1          # a new operating point has been linearised
            e.As = ('As', st.round)
            return e.As
        e.calc_As = calc_As
        e.calc_eig = lambda As=None: (mus[st.round], ('N', st.round))
        e.calc_pfactor = lambda As=None: (mus[st.round], ('pf', st.round), ('N', st.round), ('W', st.round))
        # what run() leaves behind
        e.As = ('As', 0)
        e.mu, e.pfactors, e.N, e.W = e.calc_pfactor()
        e._store_stats()
        par = NS(owner=NS(idx2uid=lambda idx: 0), name='M', v=np.array([1.0, 1.0]))
        out_ = e.sweep(par, 'GENCLS_1', [2.0 + k for k in range(rounds)])
        ok = isinstance(out_, dict) and len(out_) == rounds
        k = next((j for j in range(rounds + 1) if e.mu is mus[j]), None)
        if not ok or k is None:
            return [('sweep returns one result per value and stores one of the computed spectra', False)]
        re = res[k]
        pos = sum(ITE(LT(tol, re[i]), 1.0, 0.0) for i in range(n))
        neg = sum(ITE(LT(re[i], -tol), 1.0, 0.0) for i in range(n))
        zer = sum(ITE(AND(LE(-tol, re[i]), LE(re[i], tol)), 1.0, 0.0) for i in range(n))
        return [('after sweep: stored spectrum is that of the last operating point', k == rounds),
                ('after sweep: n_positive counts the stored eigenvalues', EQ(e.n_positive, pos)),
                ('after sweep: n_zeros counts the stored eigenvalues', EQ(e.n_zeros, zer)),
                ('after sweep: n_negative counts the stored eigenvalues', EQ(e.n_negative, neg)),
                ('after sweep: participation factors belong to the stored eigenvalues', e.pfactors == ('pf', k)),
                ('after sweep: eigenvectors belong to the stored eigenvalues', e.N == ('N', k))]
    return h


class NPNoRound:
    """numpy proxy for calc_pfactor: np.round is the identity (the claim is about the factors before rounding
    to 5 decimals); everything else is numpy"""

    def __getattr__(self, k):
        return getattr(np, k)

    @staticmethod
    def round(x, d=0):
        return x


def h_pfactor(n):
    def h(I):
        from andes.routines.eig import EIG
        N = [[I.real(f'N{i}{j}') for j in range(n)] for i in range(n)]
        dN = dshim.det(N)
        I.assume(NOT(EQ(dN, 0, tol=1e-9)))
        if I.symbolic:
            Nobj = np.empty((n, n), dtype=object)
            for i in range(n):
                for j in range(n):
                    Nobj[i, j] = N[i][j]

            def solve(A, B, overwrite_b=False):
                # the normalisation claims hold for ANY left-eigenvector matrix: W^T is an arbitrary symbolic matrix
                X = np.empty(B.shape, dtype=object)
                for i in range(B.shape[0]):
                    for j in range(B.shape[1]):
                        X[i, j] = I.real(f'WT{i}{j}')
                return X
            f = rebind(EIG.calc_pfactor, solve=solve, np=NPNoRound())
            e = NS(calc_eig=lambda As=None: (np.zeros(n), Nobj))
            mu, pf, N_, W = f(e)
        else:
            Nf = np.array(N, dtype=float)
            e = NS(calc_eig=lambda As=None: (np.zeros(n), Nf.copy()))
            WTf = np.array([[I.real(f'WT{i}{j}') for j in range(n)] for i in range(n)], dtype=float)
            g = dict(EIG.calc_pfactor.__globals__)
            g['np'] = NPNoRound()
            g['solve'] = lambda A, B, overwrite_b=False: WTf.copy()      # same stub as in exploration, concrete values
            f = types.FunctionType(EIG.calc_pfactor.__code__, g, 'calc_pfactor', EIG.calc_pfactor.__defaults__)
            mu, pf, N_, W = f(e)
        for mode in range(n):
            I.assume(NOT(EQ(sum(abs(W[s, mode]) * abs(N_[s, mode]) for s in range(n)), 0, tol=1e-9)))
        out = []
        # every mode must have a non-zero total (otherwise normalisation is undefined)
        for mode in range(n):
            out.append((f'participation factors of mode {mode} sum to one', EQ(sum(pf[mode, s] for s in range(n)), 1.0, tol=1e-7)))
            for s in range(n):
                out.append((f'participation factor [{mode},{s}] is non-negative', LE(0, pf[mode, s], tol=1e-12)))
        return out
    return h


_ASSOC = None


def assoc_loop():
    """the 'most associated variable' loop cut out of the current source of EIG.report"""
    global _ASSOC
    if _ASSOC is None:
        from andes.routines import eig as eigmod
        src = textwrap.dedent(inspect.getsource(eigmod.EIG.report))
        fn = ast.parse(src).body[0]
        loops = [s for s in fn.body if isinstance(s, ast.For) and 'var_assoc' in ast.unparse(s)]
        if len(loops) != 1:
            raise RuntimeError('EIG.report: association loop not found')
        args = ast.arguments(posonlyargs=[], args=[ast.arg('self'), ast.arg('x_name'), ast.arg('n_states')], kwonlyargs=[],
                             kw_defaults=[], defaults=[])
        f = ast.FunctionDef(name='_assoc', args=args, decorator_list=[], type_params=[],
                            body=[ast.parse('var_assoc = []').body[0], loops[0], ast.parse('return var_assoc').body[0]])
        mod = ast.Module(body=[f], type_ignores=[])
        ast.fix_missing_locations(mod)
        g = dict(eigmod.__dict__)
        exec(compile(mod, '<repo:EIG.report association loop>', 'exec'), g)
        _ASSOC = g['_assoc']
    return _ASSOC


def h_assoc(n):
    def h(I):
        f = assoc_loop()
        pf = np.empty((n, n), dtype=object) if I.symbolic else np.zeros((n, n))
        for i in range(n):
            for j in range(n):
                pf[i, j] = I.real(f'p{i}{j}')
        names = [f'x{j}' for j in range(n)]
        got = f(NS(pfactors=pf), names, n)
        out = []
        for mode in range(n):
            k = names.index(got[mode])
            out.append((f'most associated state of mode {mode} has the largest factor',
                        AND(*[LE(pf[mode, s], pf[mode, k], tol=0.0) for s in range(n)])))
        return out
    return h


def region_of(values, cname):
    c = cname.split('[')[0].strip()
    return c


def job(spec):
    kind, arg = spec
    if kind == 'As2':
        n, m, zp, first = arg
        return H.run(f'EIG.calc_As twice[n={n},m={m},zeroT={"".join(map(str, first))} then {"".join(map(str, zp))}]',
                     h_state_matrix(n, m, zp, first), timeout_ms=60000,
                     region=lambda v, c: 'second analysis on the same object: ' + region_of(v, c))
    if kind == 'As':
        n, m, zp = arg
        return H.run(f'EIG.calc_As[n={n},m={m},zeroT={"".join(map(str, zp))}]', h_state_matrix(n, m, zp), timeout_ms=60000,
                     region=lambda v, c: ('zero-T ' if any(zp) else '') + region_of(v, c))
    if kind == 'stats':
        return H.run('EIG._store_stats', h_store_stats(3), region=region_of)
    if kind == 'sweep':
        return H.run(f'EIG.sweep after run[n={arg[0]},rounds={arg[1]}]', h_sweep(*arg), region=lambda v, c: c.split(':')[0])
    if kind == 'pf':
        return H.run(f'EIG.calc_pfactor[n={arg}]', h_pfactor(arg), timeout_ms=60000, region=lambda v, c: c.split(' of mode')[0].split('[')[0].strip())
    if kind == 'assoc':
        return H.run(f'EIG.report association[n={arg}]', h_assoc(arg), region=lambda v, c: c.split(' of mode')[0])


def main():
    ck = core.Check(PID, 'other',
                    'Real EIG.calc_As/_reduce/_reorder executed on fully symbolic matrix blocks and time constants for every '
                    'zero-time-constant pattern within the bound; z3 decides entry-wise equality with the double Schur complement '
                    '(division-free via adjugates); _store_stats partition; calc_pfactor normalisation and sign with LAPACK '
                    'stubbed by an arbitrary invertible eigenvector matrix; arg-max of the report loop cut from the source.')
    from andes.routines.eig import EIG
    ck.encodes(EIG.calc_As, EIG._reduce, EIG._reorder, EIG.find_zero_states, EIG._store_stats, EIG.calc_pfactor, EIG.report, EIG.sweep)
    thorough = core.tier() == 'thorough'
    sizes = [(2, 1), (2, 2), (3, 1)] + ([(3, 2)] if thorough else [])
    ck.bound(states='n <= 3', algebraic='m <= 2', zero_T_patterns='all 2^n - 1 proper patterns with at least one non-zero T',
             pfactor='real eigenvector matrices n <= 3 (quick: 2)')
    bad = dshim.selftest(core.seed(), 50)
    ck.extra['dshim_disagreements_with_kvxopt'] = bad
    if bad:
        ck.errors.append('dshim disagrees with kvxopt')
    ck.stub('kvxopt matrix/spmatrix/sparse/spdiag -> vlib.dshim (dense); Solver.linsolve -> fresh unknowns X with A X = B, det A != 0',
            'np.linalg.eig -> arbitrary real invertible matrix N; scipy solve -> arbitrary real matrix (exploration), real solve (replay); np.round -> identity')
    ck.assume('gy non-singular; the block of zero-T states of F non-singular; T > 0 for the remaining states',
              'floats abstracted as reals')
    ck.out('the LAPACK eigen-solver', 'complex eigenvectors', 'n > 3')
    jobs = []
    for n, m in sizes:
        for zp in itertools.product([0, 1], repeat=n):
            if all(zp):
                continue
            if not thorough and n == 3 and sum(zp) > 1:
                continue
            jobs.append(('As', (n, m, zp)))
    jobs += [('As2', (2, 1, (0, 0), (0, 1))), ('As2', (2, 1, (0, 1), (1, 0))), ('As2', (3, 1, (0, 0, 0), (0, 1, 0)))]
    jobs += [('stats', 0), ('sweep', (2, 1)), ('sweep', (3 if thorough else 2, 2)), ('pf', 2), ('pf', 3), ('assoc', 3)]
    ck.merge(core.pmap(job, jobs))
    ck.sample({'obligation': 'As[a,b]*dgy*det(G_ZZ)*T_i == det(G_ZZ)*G_ij - G_iZ adj(G_ZZ) G_Zj, G = dgy*fx - fy adj(gy) gx'})
    ck.finish()


if __name__ == '__main__':
    core.run_main(main)
