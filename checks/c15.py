r"""
C15  Stored and exported results are the simulated values, complete and labelled  (partial).

Decided here (tag flow through the real storage code, every stored number a distinct symbol):
  * real DAE.store + DAETimeSeries.unpack_np / get_data on a real dynamic System for k = 3 stored
    steps: one row per stored step, row k holds the symbols the solver held at step k, in the
    columns whose names name that variable of that device -- without Output selection and with
    Output restricted to a model, a variable, a device; a query by device subset returns those
    devices' columns;
  * the real storing branch of the TDS.run loop (cut from source): with save_every = s the
    accepted step number k is stored <=> s = 1 or (s > 1 and k mod s = 0), never when s = 0;
  * real DAE.write_npz with limit_store (file I/O replaced by an in-memory store): the chunks
    written over successive off-loads contain every row exactly once, in order.
Not applicable to a solver: the npz / lst / csv FILES themselves, the plotting loader, replay
from csv.
"""
import types

import numpy as np
import z3

from vlib import core, pysym, cases, harness as H
from vlib.harness import AND, OR, NOT, IFF, IMPLIES, EQ, LE, LT

PID = 'C15'
NS = types.SimpleNamespace
_SYS = {}

OUTPUTS = {
    'all': [],
    'model': [dict(model='GENCLS')],
    'variable': [dict(model='GENCLS', varname='omega'), dict(model='Bus', varname='v')],
    'device': [dict(model='GENCLS', varname='omega', dev='M3'), dict(model='Bus', varname='v', dev=2), dict(model='TGOV1', dev='T2')],
}


def get_sys(sel):
    if sel not in _SYS:
        extra = [('GENCLS', dict(bus=3, gen='G3', idx='M3', M=5.0, D=1.0, xd1=0.3)),
                 ('GENCLS', dict(bus=2, gen='G2', idx='M2', M=6.0, D=1.0, xd1=0.3)),
                 ('GENCLS', dict(bus=1, gen='S1', idx='M1', M=8.0, D=1.0, xd1=0.25)),
                 ('TGOV1', dict(syn='M2', idx='T2')), ('TGOV1', dict(syn='M3', idx='T3'))]
        extra += [('Output', d) for d in OUTPUTS[sel]]
        ss = cases.build([1, 2, 3], lines=[dict(bus1=1, bus2=2, idx='L1'), dict(bus1=2, bus2=3, idx='L2'), dict(bus1=1, bus2=3, idx='L3')],
                         slacks=[dict(bus=1, idx='S1', p0=0.3)], pvs=[dict(bus=2, idx='G2', p0=0.3), dict(bus=3, idx='G3', p0=0.2)],
                         pqs=[dict(bus=3, idx='D3', p0=0.6, q0=0.2)], setup=False, extra=extra)
        ss.setup()
        ss.PFlow.run()
        ss.TDS.config.no_tqdm = 1
        ss.TDS.init()
        _SYS[sel] = ss
    return _SYS[sel]


def selected(ss, sel):
    """independent reading of the Output selection: set of (v_code, address) that must be kept"""
    if not OUTPUTS[sel]:
        return None
    keep = set()
    for d in OUTPUTS[sel]:
        m = ss.models[d['model']]
        for vn, var in m.cache.all_vars.items():
            if d.get('varname') is not None and vn != d['varname']:
                continue
            for k in range(len(var.a)):
                if d.get('dev') is not None and (k >= m.n or m.idx.v[k] != d['dev']):
                    continue
                keep.add((var.v_code, int(var.a[k])))
    return keep


def h_store(sel, nsteps=3):
    def h(I):
        import andes.variables.dae as DA
        ss = get_sys(sel)
        dae = ss.dae
        dae.clear_ts()
        ss.TDS.config.store_z = ss.TDS.config.store_f = ss.TDS.config.store_h = ss.TDS.config.store_i = 0
        times = [0.0, 0.1, 0.25][:nsteps]
        tags = []
        for k, t in enumerate(times):
            dae.t = np.array(t)
            dae.x = I.arr(*[f'x{k}_{i}' for i in range(dae.n)])
            dae.y = I.arr(*[f'y{k}_{i}' for i in range(dae.m)])
            tags.append((dae.x.copy(), dae.y.copy()))
            for v in list(dae.x) + list(dae.y):
                I.assume(NOT(EQ(v, 0, tol=0.0)))      # `_access_array` tests the stored matrix for being all-zero
            dae.store()
        ts = dae.ts
        if I.symbolic:
            pysym.rebind(DA.DAETimeSeries.unpack_np, np=pysym.NPXO)(ts, None)
        else:
            ts.unpack_np(None)
        keep = selected(ss, sel)
        xcols = sorted(a for c, a in keep if c == 'x') if keep is not None else list(range(dae.n))
        ycols = sorted(a for c, a in keep if c == 'y') if keep is not None else list(range(dae.m))
        out = [('one row per stored step, stamped with its time', list(ts.t) == times and ts.x.shape[0] == nsteps and ts.y.shape[0] == nsteps),
               ('exactly the selected state columns are kept', ts.x.shape[1] == len(xcols) and list(ss.Output.xidx if ss.Output.n else range(dae.n)) == xcols),
               ('exactly the selected algebraic columns are kept', ts.y.shape[1] == len(ycols) and list(ss.Output.yidx if ss.Output.n else range(dae.m)) == ycols)]
        if ts.x.shape[1] == len(xcols) and ts.y.shape[1] == len(ycols):
            for k in range(nsteps):
                out.append((f'row {k} holds the state values of step {k} in the selected columns',
                            AND(*[EQ(ts.x[k, j], tags[k][0][a], tol=0.0) for j, a in enumerate(xcols)]) if xcols else True))
                out.append((f'row {k} holds the algebraic values of step {k} in the selected columns',
                            AND(*[EQ(ts.y[k, j], tags[k][1][a], tol=0.0) for j, a in enumerate(ycols)]) if ycols else True))
            names_x, names_y = dae.x_name_output, dae.y_name_output
            out.append(('column labels are the names of the kept slots', names_x == [dae.x_name[a] for a in xcols] and
                        names_y == [dae.y_name[a] for a in ycols]))
            # queries by variable and by device subset
            get_data = pysym.rebind(DA.DAETimeSeries.get_data, np=pysym.NPXO) if I.symbolic else DA.DAETimeSeries.get_data
            for var, code, cols in ((ss.GENCLS.omega, 'x', xcols), (ss.Bus.v, 'y', ycols)):
                stored_devs = [d for d in range(var.n) if int(var.a[d]) in cols]
                if not stored_devs:
                    continue
                data = get_data(ts, var)
                ok = data.shape == (nsteps, len(stored_devs))
                out.append((f'query of {var.owner.class_name}.{var.name} returns one column per stored device', ok))
                if ok:
                    src = 0 if code == 'x' else 1
                    out.append((f'query of {var.owner.class_name}.{var.name} returns those devices\' values',
                                AND(*[EQ(data[k, j], tags[k][src][int(var.a[d])], tol=0.0) for k in range(nsteps) for j, d in enumerate(stored_devs)])))
                # device subset: the user asks for device number `want` of the variable
                for want in range(var.n):
                    sub = get_data(ts, var, a=[want])
                    if want in stored_devs:
                        out.append((f'query of {var.owner.class_name}.{var.name} for device #{want} returns that device\'s values',
                                    sub.shape == (nsteps, 1) and AND(*[EQ(sub[k, 0], tags[k][src][int(var.a[want])], tol=0.0) for k in range(nsteps)])))
                    else:
                        out.append((f'query of {var.owner.class_name}.{var.name} for device #{want}, which is not stored, does not return another device\'s values',
                                    sub.shape[1] == 0))
        return out
    return h


def h_thinning(save_every, kcount):
    def h(I):
        from checks import c06
        body, test, epi, cuts = c06.cut_loop()
        tds, system, cfg, S, stored, fired, conv = c06.make_tds(I, 3, 3, conv_fix=True, fixt_fix=True)
        cfg.save_every = save_every
        system.dae.kcount = kcount
        I.assume(test(tds, system, system.dae, cfg))
        t = system.dae.t
        body(tds, system, system.dae, cfg)
        want = (save_every == 1) or (save_every > 1 and kcount % save_every == 0)
        return [(f'accepted step number {kcount} with save_every={save_every} is stored <=> it is due',
                 (len(stored) == 1) == want and len(stored) <= 1),
                ('a stored row carries the accepted time', (not stored) or EQ(stored[0], t, tol=0.0)),
                ('the step counter advances by one per accepted step', system.dae.kcount == kcount + 1)]
    return h


def h_chunks(spec):
    """successive off-loads through the real write_npz (limit_store mode).  `spec` is a list of (rows, reset_after): the in-loop
    off-load of TDS.run clears the series afterwards (real DAETimeSeries.reset); the write at the end of a run does not, so a
    resumed run appends from the same, still filled series"""
    def h(I):
        import andes.variables.dae as DA
        disk = {}

        class NPFile(pysym.NumpyProxyObj):
            def savez_compressed(self, path, data=None):
                disk[path] = data

            def load(self, path):
                return {'data': disk[path]}
        npf = NPFile()
        write = pysym.rebind(DA.DAE.write_npz, np=npf, logger=NS(debug=lambda *a, **k: None))
        unpack_np = pysym.rebind(DA.DAETimeSeries.unpack_np, np=pysym.NPXO)
        all_rows, row_id = [], 0
        dae = NS(system=NS(TDS=NS(config=NS(limit_store=1))), _write_append=False)
        ts = DA.DAETimeSeries(dae=NS(system=NS(Output=NS(n=0)), x_name_output=['x'], y_name_output=['y'], z_name=[]))
        if I.symbolic:
            ts.unpack_np = types.MethodType(unpack_np, ts)
        dae.ts = ts
        for size, reset_after in spec:
            for r in range(size):
                t = float(row_id)
                ts._xs[t] = I.arr(f'x_{row_id}')
                ts._ys[t] = I.arr(f'y_{row_id}')
                ts._zs[t] = np.zeros(0)
                all_rows.append((t, ts._xs[t][0], ts._ys[t][0]))
                row_id += 1
            write(dae, 'out.npz')
            if reset_after:
                ts.reset()
        data = disk.get('out.npz')
        n = len(all_rows)
        ok = data is not None and data.shape[0] == n
        out = [('the file holds one row per stored step after all off-loads', ok)]
        if ok:
            out.append(('rows are in order and each holds its own time and values',
                        AND(*[AND(EQ(data[k, 0], all_rows[k][0], tol=0.0), EQ(data[k, 1], all_rows[k][1], tol=0.0),
                                  EQ(data[k, 2], all_rows[k][2], tol=0.0)) for k in range(n)])))
        return out
    return h


class FakeFS:
    """in-memory files for the real writers and loaders (open / np.savetxt / np.loadtxt / np.load)"""

    def __init__(self):
        self.text, self.arrays = {}, {}

    def open(self, path, mode='r'):
        import io
        fs = self
        if 'w' in mode:
            class W(io.StringIO):
                name = path

                def close(w):
                    fs.text[path] = w.getvalue()
                    io.StringIO.close(w)
            return W()
        if path not in self.text:
            raise FileNotFoundError(path)
        return io.StringIO(self.text[path])

    def np(self):
        fs = self

        class NPF(pysym.NumpyProxyObj):
            def savetxt(self, fd, body, fmt=None, delimiter=','):
                fs.arrays[fd.name] = body                      # the number formatting itself is outside the claim

            def loadtxt(self, path, delimiter=',', skiprows=0):
                assert skiprows == 1
                return fs.arrays[path]

            def load(self, path):
                if path not in fs.arrays:
                    raise FileNotFoundError(path)
                return fs.arrays[path]
        return NPF()


def h_files(sel, idx_req):
    """lst file written by the real DAE.write_lst, read by the real TDSData.load_lst; csv written by the real export_csv
    from symbolic data and read back by the real loader"""
    def h(I):
        import andes.variables.dae as DA
        import andes.plot as PL
        ss = get_sys(sel)
        dae = ss.dae
        fs = FakeFS()
        dae._lst_written = False
        quiet = NS(info=lambda *a, **k: None, debug=lambda *a, **k: None, warning=lambda *a, **k: None)
        pysym.rebind(DA.DAE.write_lst, open=fs.open)(dae, 'case_out.lst')
        dae._lst_written = False
        keep = selected(ss, sel)
        xcols = sorted(a for c, a in keep if c == 'x') if keep is not None else list(range(dae.n))
        ycols = sorted(a for c, a in keep if c == 'y') if keep is not None else list(range(dae.m))
        names = ['Time [s]'] + [dae.x_name[a] for a in xcols] + [dae.y_name[a] for a in ycols]
        ncol = len(names)
        data = np.empty((2, ncol), dtype=object)
        for r in range(2):
            data[r, :] = I.arr(*[f'd{r}_{j}' for j in range(ncol)])
        td = PL.TDSData.__new__(PL.TDSData)
        td._lst_file, td._csv_file, td._npy_file = 'case_out.lst', 'case_out.csv', 'case_out.npz'
        pysym.rebind(PL.TDSData.load_lst, open=fs.open)(td)
        out = [('the lst file read back names every stored column, in column order', td._uname == names and td._idx == list(range(ncol)) and td.nvars == ncol)]
        if td._uname != names:
            return out
        td._data = data
        req = [j for j in idx_req if j < ncol] if idx_req else None
        export = pysym.rebind(PL.TDSData.export_csv, open=fs.open, np=fs.np(), logger=quiet)
        export(td, path='case_out.csv', idx=req)
        cols = req if req else list(range(ncol))
        head = fs.text.get('case_out.csv', '').strip().split(',')
        body = fs.arrays.get('case_out.csv')
        ok = body is not None and body.shape == (2, len(cols)) and len(head) == len(cols)
        out.append(('csv export writes one labelled column per requested variable', ok))
        if ok:
            out.append(('each csv column is headed by the name of the variable whose values it holds',
                        AND(*[AND(*[EQ(body[r, j], data[r, names.index(head[j])], tol=0.0) for r in range(2)]) for j in range(len(cols))])
                        if all(hd in names for hd in head) else False))
            out.append(('the csv holds exactly the requested variables', sorted(head) == sorted(names[j] for j in cols)))
            if req is None:
                # read back by the loader (no npy/npz next to it): legacy csv path
                td2 = PL.TDSData.__new__(PL.TDSData)
                td2._lst_file, td2._csv_file, td2._npy_file = 'case_out.lst', 'case_out.csv', 'missing.npy'
                pysym.rebind(PL.TDSData.load_lst, open=fs.open)(td2)
                pysym.rebind(PL.TDSData.load_npy_or_csv, np=fs.np())(td2)
                got = td2.get_values(list(range(ncol)))
                out.append(('data read back from the csv are the exported values under the same names',
                            td2.get_header(list(range(ncol))) == names and AND(*[EQ(got[r, j], data[r, j], tol=0.0) for r in range(2) for j in range(ncol)])))
        return out
    return h


def h_yidx(sel):
    """queries by variable through the plotting loader (memory mode): the columns addressed are those of the variables asked for,
    in the order asked, whatever the mix of states and algebraic variables"""
    def h(I):
        import andes.plot as PL
        ss = get_sys(sel)
        dae = ss.dae
        keep = selected(ss, sel)
        xcols = sorted(a for c, a in keep if c == 'x') if keep is not None else list(range(dae.n))
        ycols = sorted(a for c, a in keep if c == 'y') if keep is not None else list(range(dae.m))
        names = ['Time [s]'] + [dae.x_name[a] for a in xcols] + [dae.y_name[a] for a in ycols]
        td = PL.TDSData.__new__(PL.TDSData)
        td.dae = dae
        quiet = NS(info=lambda *a, **k: None, debug=lambda *a, **k: None, warning=lambda *a, **k: None)
        proc = pysym.rebind(PL.TDSData._process_yidx, logger=quiet)

        def want(var):
            cols, src, off = (xcols, dae.x_name, 1) if var.v_code == 'x' else (ycols, dae.y_name, 1 + len(xcols))
            return [off + cols.index(int(a)) for a in var.a if int(a) in cols]
        out = []
        V = {'Bus.v': ss.Bus.v, 'GENCLS.omega': ss.GENCLS.omega, 'GENCLS.delta': ss.GENCLS.delta, 'Bus.a': ss.Bus.a, 'TGOV1.pout': ss.TGOV1.pout}
        for combo in (('Bus.v',), ('GENCLS.omega',), ('GENCLS.omega', 'Bus.v'), ('Bus.v', 'GENCLS.omega'), ('Bus.a', 'GENCLS.delta', 'Bus.v', 'GENCLS.omega'),
                      ('TGOV1.pout', 'GENCLS.omega', 'GENCLS.delta')):
            exp = [k for nm in combo for k in want(V[nm])]
            got = [int(k) for k in proc(td, [V[nm] for nm in combo], None)]
            out.append((f'query [{", ".join(combo)}] addresses the columns of exactly those variables, in that order', got == exp))
            if got == exp:
                out.append((f'query [{", ".join(combo)}]: the labels at those columns name the variables asked for',
                            all(names[k].split(' ')[0] == nm.split('.')[1] for nm in combo for k in want(V[nm]))))
        return out
    return h


def h_replay(I):
    """replay from csv through the real TDS.run: every row of the file becomes exactly one stored row, at its own time, with its
    own values (the file content is a table of distinct tags; no symbolic input: the run is deterministic)"""
    import andes.routines.tds as TD
    _SYS.pop('replay', None)
    OUTPUTS.setdefault('replay', [])
    ss = get_sys('replay')          # a system of its own: TDS.run initialises it
    _SYS.pop('replay', None)
    dae = ss.dae
    ss.TDS.initialized = False
    ss.TDS.data_csv = None
    ss.TDS.k_csv = 0
    ss.dae.t = np.array(-1.0)          # not yet initialised: TDS.run takes the init path, not the resume path
    times = [0.0, 0.05, 0.1, 0.2, 0.25]
    ncol = 1 + dae.n + dae.m
    data = np.array([[t] + [1000.0 * (r + 1) + cidx for cidx in range(1, ncol)] for r, t in enumerate(times)])
    orig = TD.TDS._load_csv

    def fake_load(self, path):
        self.config.t0, self.config.tf = data[0, 0], data[-1, 0]
        return data
    TD.TDS._load_csv = fake_load
    old_tf = ss.TDS.config.tf
    try:
        ok = ss.TDS.run(from_csv='table.csv')
    finally:
        TD.TDS._load_csv = orig
        ss.TDS.data_csv, ss.TDS.from_csv = None, None
        ss.TDS.config.tf = old_tf
        ss.TDS.initialized = False
    ts = dae.ts
    ts.unpack_np(None)
    out = [('replay stores one row per row of the file, at the times of the file', len(ts.t) == len(times) and bool(np.allclose(ts.t, times, atol=1e-12)))]
    if len(ts.t) == len(times):
        out.append(('every replayed row holds the values of its own row of the file',
                    bool(np.array_equal(ts.x, data[:, 1:dae.n + 1])) and bool(np.array_equal(ts.y, data[:, dae.n + 1:]))))
    return out


def job(spec):
    import logging
    logging.getLogger('andes').setLevel(60)
    kind, arg = spec
    if kind == 'store':
        return H.run(f'DAE.store/unpack/get_data [Output: {arg}]', h_store(arg), timeout_ms=20000,
                     region=lambda v, c: ('device-subset query on partially stored variable: ' if 'not stored' in c or "for device #" in c else '') + c.split(' of step')[0])
    if kind == 'thin':
        return H.run(f'TDS.run storing branch [save_every={arg[0]}, step {arg[1]}]', h_thinning(*arg), max_paths=4000, region=lambda v, c: c.split(' with ')[0])
    if kind == 'yidx':
        return H.run(f'TDSData._process_yidx [Output: {arg}]', h_yidx(arg), region=lambda v, c: c.split(': ')[-1] if ': ' in c else 'columns of a query')
    if kind == 'replay':
        return H.run('TDS.run(from_csv) on a table of tags', h_replay, region=lambda v, c: c)
    if kind == 'files':
        return H.run(f'write_lst -> load_lst -> export_csv -> loader [Output: {arg[0]}, columns {arg[1]}]', h_files(*arg), region=lambda v, c: c)
    if kind == 'chunks':
        return H.run(f'DAE.write_npz chunks {arg}', h_chunks(arg), region=lambda v, c: c)


def main():
    ck = core.Check(PID, 'other',
                    'PARTIAL. Tag flow through the real DAE.store, DAETimeSeries.unpack_np/get_data, Output selection and write_npz chunk '
                    'logic with every stored value a distinct symbol: rows, columns, labels and queries hold exactly the symbols of the '
                    'right step/variable/device; the storing branch of the TDS.run loop keeps exactly the due steps for each save_every.')
    import andes.variables.dae as DA
    import andes.system as SY
    import andes.models.misc.output as OU
    import andes.routines.tds as TD
    import andes.plot as PL
    ck.encodes(DA.DAE.store, DA.DAETimeSeries.unpack_np, DA.DAETimeSeries.get_data, DA.DAETimeSeries._access_array, DA.DAE.write_npz,
               SY.System.set_output_subidx, OU.Output.to_output_addr, OU.Output.in1d, TD.TDS.run, TD.TDS.save_output, DA.DAE.write_lst, TD.TDS._csv_step, TD.TDS._csv_data_to_dae, TD.TDS.calc_h, PL.TDSData.load_lst,
               PL.TDSData.export_csv, PL.TDSData._process_yidx, PL.TDSData.get_header, PL.TDSData.get_values, PL.TDSData.load_npy_or_csv)
    thorough = core.tier() == 'thorough'
    ck.bound(steps=3, system='3-bus, GENCLS x3, TGOV1 x2', selections=list(OUTPUTS), save_every='0..3, step numbers 0..3', chunks='<= 3 off-loads of <= 2 rows')
    ck.stub('numpy.zeros allocates object arrays in exploration (unpack_np, get_data)', 'np.savez_compressed / np.load / np.savetxt / np.loadtxt / open -> in-memory files',
            'loop-body stubs of C06 (itm_step, progress bar)')
    ck.assume('stored values are non-zero (the all-zero test of _access_array is then decided without forking)', 'tag flow is structural: the solver decides equality of distinct symbols')
    ck.out('number formatting of np.savetxt / parsing of np.loadtxt, the compressed npz container, TimeSeries replay from csv, plotting', 'store_z/f/h/i arrays')
    jobs = [('store', s) for s in OUTPUTS] + [('thin', (s, k)) for s in (0, 1, 2, 3) for k in ((0, 1, 2, 3) if thorough else (0, 1, 2))]
    R, K = True, False      # cleared after the off-load (in-loop) / kept (write at the end of a run, then resumed)
    jobs += [('chunks', c) for c in (((2, R),), ((2, R), (1, R)), ((1, R), (2, R), (2, R)), ((2, K), (1, K)), ((1, K), (2, R), (1, K), (1, K)),
                                     ((2, R), (0, R), (1, K), (0, K), (2, K)))]
    jobs += [('files', (s, cols)) for s in OUTPUTS for cols in (None, (3, 1), (2, 0, 4))] + [('replay', 0)] + [('yidx', s) for s in OUTPUTS]
    ck.merge(core.pmap(job, jobs))
    ck.sample({'store': 'x{step}_{slot}, y{step}_{slot} symbols; Output selections: ' + ', '.join(OUTPUTS)})
    ck.finish()


if __name__ == '__main__':
    core.run_main(main)
