#!/usr/bin/env python3
"""collect a confirmed seeded change into /verif/seeded/<PID>-<k>/"""
import json, os, shutil, sys
P, K = sys.argv[1], sys.argv[2]
status = sys.argv[3] if len(sys.argv) > 3 else 'unknown'
O = f'/tmp/mut/out_{P}'
ROUND2 = P.endswith('r2')
if ROUND2:
    P = P[:-2]
D = f'/verif/seeded/{P}-{int(K) + 2 if ROUND2 else K}'
os.makedirs(D, exist_ok=True)
shutil.copy(f'{O}/patch{K}.diff', f'{D}/patch.diff')
shutil.copy(f'{O}/demo{K}.py', f'{D}/demo.py')
meta = json.load(open(f'{O}/meta{K}.json'))
conf = open(f'{O}/confirm{K}.txt').read().strip() if os.path.exists(f'{O}/confirm{K}.txt') else ''
meta['breaks_property'] = P
meta['confirmed_by_me'] = {'command': f'tools/confirm_mutant.sh {P} {K} (scratch worktree /tmp/mut/{P}, private HOME): demo on pristine, '
                                     'git apply patch, demo, full pytest, revert', 'result': conf}
meta['detection'] = status
json.dump(meta, open(f'{D}/meta.json', 'w'), indent=1)
print('saved', D)
