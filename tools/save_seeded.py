#!/usr/bin/env python3
"""collect a confirmed seeded change into /verif/seeded/<PID>-<k>/"""
import json, os, shutil, sys
P, K = sys.argv[1], sys.argv[2]
status = sys.argv[3] if len(sys.argv) > 3 else 'unknown'
O = f'/tmp/mut/out_{P}'
import re
mr = re.match(r'(C\d\d)r(\d)$', P)
OFF = 0
if mr:
    P, OFF = mr.group(1), 2 * (int(mr.group(2)) - 1)
    # the third agent round of a property may follow a property that only had one earlier round
    while os.path.exists(f'/verif/seeded/{P}-{int(K) + OFF}') and OFF < 8 and os.environ.get('SEED_APPEND'):
        OFF += 2
D = f'/verif/seeded/{P}-{int(K) + OFF}'
os.makedirs(D, exist_ok=True)
shutil.copy(f'{O}/patch{K}.diff', f'{D}/patch.diff')
shutil.copy(f'{O}/demo{K}.py', f'{D}/demo.py')
meta = json.load(open(f'{O}/meta{K}.json'))
conf = open(f'{O}/confirm{K}.txt').read().strip() if os.path.exists(f'{O}/confirm{K}.txt') else ''
meta['breaks_property'] = P
meta['confirmed_by_me'] = {'command': f'tools/confirm_mutant.sh {P} {K} (scratch worktree /tmp/mut/{P}, private HOME): demo on pristine, '
                                     'git apply patch, demo, full pytest, revert', 'result': conf}
meta['detection'] = status
json.dump(meta, open(f'{D}/meta.json', 'w'), indent=1)
print('saved', D)
