#!/bin/bash
# run every claimed check (quick by default) and print one summary line each
T=${1:-quick}
cd /verif
for P in $(python3 -c "import json;print(' '.join(c['property_id'] for c in json.load(open('MANIFEST.json'))['checks']))"); do
  S=$(date +%s); ./check $P --tier $T > /tmp/runall_$P.log 2>&1; RC=$?; E=$(( $(date +%s) - S ))
  echo "$P exit=$RC ${E}s $(grep -c '^VIOLATION' /tmp/runall_$P.log)viol $(grep -c '^KNOWN' /tmp/runall_$P.log)known | $(tail -1 /tmp/runall_$P.log | cut -c1-160)"
done
