#!/bin/bash
# confirm a seeded change in its scratch worktree: demo fails with it / passes without it; test-suite unchanged
# usage: confirm_mutant.sh <PID> <k>
P=$1; K=$2
W=/tmp/mut/$P; O=/tmp/mut/out_$P; H=/tmp/mut/home_$P
cd $W || exit 9
git checkout -q -- . ; git clean -fdq
run() { (cd $W && HOME=$H PYTHONPATH=$W timeout 1800 /venv/bin/python "$@"); }
run $O/demo$K.py > $O/confirm${K}_demo_pristine.log 2>&1; D0=$?
git apply $O/patch$K.diff || { echo "$P/$K: patch does not apply"; exit 8; }
run $O/demo$K.py > $O/confirm${K}_demo_patched.log 2>&1; D1=$?
run -m pytest -q -p no:cacheprovider --timeout=900 tests > $O/confirm${K}_pytest.log 2>&1
T=$(tail -1 $O/confirm${K}_pytest.log)
git checkout -q -- . ; git clean -fdq
echo "$P/$K demo_pristine_exit=$D0 demo_patched_exit=$D1 pytest: $T" | tee $O/confirm$K.txt
