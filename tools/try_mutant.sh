#!/bin/bash
# apply a seeded patch to /repo, run the property's check (quick, optionally thorough), undo the patch
# usage: try_mutant.sh <patchfile> <PID> [tier]
PF=$1; P=$2; T=${3:-quick}
cd /repo && git status --short | grep -q . && { echo "/repo not clean"; exit 9; }
git -C /repo apply $PF || { echo "patch does not apply"; exit 8; }
cd /verif && ./check $P --tier $T > /tmp/try_$P.log 2>&1; RC=$?
git -C /repo checkout -- . ; git -C /repo clean -fdq andes
echo "$(basename $(dirname $PF))/$(basename $PF) -> $P($T) exit=$RC  $(grep -c '^VIOLATION' /tmp/try_$P.log) violation lines; $(tail -1 /tmp/try_$P.log | cut -c1-200)"
grep -A1 '^VIOLATION' /tmp/try_$P.log | grep -v '^VIOLATION\|^--' | head -3 | cut -c1-260
