#!/bin/bash
# run a check against a seeded patch WITHOUT touching /repo: scratch worktree of /repo HEAD + patch, removed afterwards
# usage: try_mutant_wt.sh <patchfile> <PID> [tier]
PF=$(realpath $1); P=$2; T=${3:-quick}
W=/tmp/mutwt/$P-$$; E=/tmp/mutwt/ev-$P-$$
mkdir -p /tmp/mutwt && git -C /repo worktree add -q --detach $W HEAD || exit 9
git -C $W apply $PF || { echo "patch does not apply"; git -C /repo worktree remove --force $W; exit 8; }
cd /verif && VERIF_REPO=$W VERIF_EVIDENCE_DIR=$E ./check $P --tier $T > /tmp/trywt_$P.log 2>&1; RC=$?
git -C /repo worktree remove --force $W; rm -rf $E
echo "$(basename $(dirname $PF))/$(basename $PF) -> $P($T) exit=$RC  $(grep -c '^VIOLATION' /tmp/trywt_$P.log) violation lines; $(tail -1 /tmp/trywt_$P.log | cut -c1-200)"
grep -A1 '^VIOLATION' /tmp/trywt_$P.log | grep -v '^VIOLATION\|^--' | head -3 | cut -c1-260
