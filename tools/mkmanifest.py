#!/usr/bin/env python3
"""Regenerate MANIFEST.json from the table below (only properties whose check exists are claimed)."""
import json, os
V = os.path.dirname(os.path.dirname(os.path.abspath(__file__)))
P = {}
def prop(pid, category, text, note, technique, design_ref, na_reason=None):
    P[pid] = dict(category=category, text=text, note=note, technique=technique, design_ref=design_ref, na=na_reason)

prop('C02', 'translation_validation',
     'Every function of every generated module that the real System loads from disk is interpreted from its AST '
     '(positional binding through the *_args lists) and proved by z3 equal, for all real argument values, to the '
     'declared string of the variable/service it is delivered to (independent parser); regeneration twice is compared '
     'function by function; staleness: after editing a declared string in-process the code the System loads must be '
     'equivalent to the NEW declaration. Unbounded in values; a sat is replayed on the real generated function.',
     'floats abstracted as reals; transcendental functions uninterpreted + true lemma instances; definedness '
     '(non-zero denominators, non-negative radicands) assumed per query; numba variants and hand-written numeric '
     'callbacks outside.',
     'SMT translation validation (z3 QF_UFNRA) of generated code vs declared equations', 'DESIGN.md 3/C02')

prop('C03', 'translation_validation',
     'Every generated Jacobian entry of every model is proved by z3 equal, for all real arguments, to the derivative of the '
     'declared equation string taken by an independent structural differentiator; the stored triplet pattern is proved '
     'complete (every absent equation/variable pair has an identically-zero derivative); constant triplets equal the '
     'declared diag_eps; a sat is replayed on the real generated function against central finite differences.',
     'floats abstracted as reals; transcendental functions uninterpreted + lemma instances; 12 Fortescue entries '
     '(sqrt/atan2 of trigonometric sums) stay unknown and are reported as such; assembled level: real fg_update/j_update of small Systems '
     'at a symbolic operating point, gy entry-wise equal to the derivative of the assembled residual, stale buffers and islanded '
     'rows, both ipadd modes (kvxopt replaced by a dictionary stub in exploration).',
     'SMT translation validation (z3 QF_UFNRA) of generated Jacobians vs symbolic derivatives', 'DESIGN.md 3/C03')
prop('C09', 'other',
     'Bounded symbolic execution (pysym) of the real check_var/check_eq of every discrete class on symbolic inputs, limits, '
     'equation values and time stamps; per path z3 decides flag semantics (0/1, agreement with comparisons, exhaustive, '
     'exclusive for lower<upper), anti-windup pegging (x=limit, xdot=0, x_set), rate clamps, and equality of Delay/Average/'
     'Derivative/Sampling/DeadBandRT outputs with reference definitions over all stamp sequences within the bound.',
     'vectors <= 3, histories <= 5 calls, niter in {0,4,5}; floats as reals; numpy.isnan stubbed for symbols; whole-simulation '
     'clamping outside.',
     'path-forking symbolic execution of real numpy code + z3 per-path queries', 'DESIGN.md 3/C09')
prop('C18', 'other',
     'Per block class: the declared equations (read back from a host Model after the real name-spacing) imply the documented '
     'transfer function identity Y*den(s) = num(s)*U for ALL parameter values, all s and all inputs (z3 QF_NRA); bypass flags '
     'come from executing the real LessThan/DeadBand.check_var on symbolic parameters; steady state: the declared initial '
     'values zero every equation for every constant input (PI/PID blocks also with symbolic reference and initial integrator value); '
     'limited variants inside limits reduce to the unlimited block; one-sided limit options reach every limiter of the block.',
     'admissible-parameter preconditions per block are listed in the evidence; limiter flags fixed in-range; freeze inputs 0; '
     'time response outside.',
     'SMT (z3 nonlinear real arithmetic) Laplace-domain identities over block equations', 'DESIGN.md 3/C18')

prop('C12', 'other',
     'Real System.connectivity and ConnMan.init/act executed under pysym on symbolic 0/1 statuses of lines, jumpers, slacks and '
     'buses of real small Systems; z3 splits every on/off pattern (exhaustive within the catalogue) and decides per path that '
     'isolated buses = degree-0 nodes, island sets = connected components (closure formula), islands form a partition, slack '
     'classification is right, neutralising addresses are the bus a/v addresses, and exactly the devices attached to an offline '
     'bus are turned off; no exception on any pattern.',
     'kvxopt replaced by a dictionary stub during exploration (differential-tested each run; replays use real kvxopt); '
     'topologies <= 5 buses / 6 series devices / 2 slacks.',
     'path-forking symbolic execution of real code on symbolic statuses + z3 per-path queries', 'DESIGN.md 3/C12')

prop('C06', 'model_checking',
     'Inductive step over the real loop of TDS.run: body, test and epilogue are cut from the AST of the current source and run '
     'under pysym (real do_switch/calc_h, integration stubbed by a free success flag) from every symbolic pre-state that satisfies '
     'the time-grid invariant; z3 decides per path that the invariant is re-established, an event is dispatched iff the accepted '
     'time equals the pending switch time (once, to the owning models), no step crosses a pending event or tf, the accepted '
     'stamp is stored once, progress is strict, exit without bust implies t == tf and success. Base case after init; real '
     'store_switch_times (rounding modelled exactly), TimerParam.is_time and Toggle/Fault/Alter callbacks on symbolic times. Thorough adds the binary64 '
     'exact-landing lemma (z3 FloatingPoint).',
     'time is a real number in the inductive step (float landing is a separate lemma for 0<=t<=u<=2t); 3 pending events, one '
     'iteration per query; itm_step/store/progress bar stubbed (listed in evidence); an event exactly at t0 is a listed known finding.',
     'bounded symbolic execution of the real loop body + z3 inductive invariant check', 'DESIGN.md 3/C06')

prop('C08', 'other',
     'Real EIG.calc_As/_reduce/_reorder/find_zero_states executed under pysym on fully symbolic fx, fy, gx, gy, Tf for every '
     'zero-time-constant pattern (n<=3, m<=2): z3 decides entry-wise equality of the returned state matrix with '
     'T_D^-1(F_DD - F_DZ F_ZZ^-1 F_ZD), F = fx - fy gy^-1 gx (division-free adjugate form) and that the reported names are the '
     'remaining states; _store_stats counts partition the eigenvalues; calc_pfactor: factors >= 0 and each mode sums to 1 with the '
     'LAPACK calls stubbed by arbitrary matrices; the report arg-max loop (cut from source) picks a largest factor; real EIG.sweep '
     'after run() on arbitrary spectra per round: counts, eigenvectors and participation factors stored belong to the stored eigenvalues.',
     'kvxopt replaced by a dense stub in exploration (replays use kvxopt/KLU); LAPACK eigen-solver outside; floats as reals; '
     'gy and the zero-T block non-singular.',
     'path-forking symbolic execution of real matrix code + z3 nonlinear real arithmetic', 'DESIGN.md 3/C08')

prop('C01', 'other',
     'Real PFlow.fg_update of real small Systems (built through the public API with own MVA/kV bases, off-nominal tap, phase '
     'shift, asymmetric branch shunts, parallel branches, several loads per bus, offline devices) executed at a fully symbolic '
     'point -- voltages, angles, every input-base parameter, base ratios, statuses: z3 decides that each bus row of the assembled '
     'residual equals the textbook polar complex-power balance written independently from the input data and that PV/slack rows '
     'are the set-point equations, also with reversed device order and string indices.',
     'per-unit ratios are the textbook ones (C11 proves that of calc_pu_coeff), service values are the declared v_str (C02); '
     'Newton convergence from a flat start and the Newton-Krylov variant are outside; <= 3 buses / 4 branches.',
     'symbolic execution of the real residual assembly + z3 identity with an independent physics oracle', 'DESIGN.md 3/C01')

prop('C11', 'other',
     'Real System.calc_pu_coeff executed on models of every connection shape (shunt, series, dc one-/two-node, with and without '
     'own ratings) whose ratings and bus bases are symbols: z3 decides every coefficient is the textbook device-base/system-base '
     'ratio and each flagged parameter gets exactly its own with v = vin*k; real Model.alter/set and GroupBase.alter sequences with '
     'symbolic values and factors keep v = vin*k for both attr modes, export the altered input value, leave other devices untouched, '
     'reach dae.Tf and the mass matrix for time constants; _p_restore gives v = vin; structural pass over every flagged parameter of '
     'every shipped model; real calc_pu_coeff on real stock models (Line, Shunt, GENCLS, GENROU, PQ, PV, Slack) against a table of '
     'physical kinds; real NumParam.add on a symbolic value (a value inside the declared domain is stored unchanged); export of '
     'converted and input-base values.',
     'bases > 0; sequences <= 3 calls on 2 devices; xlsx/json writers (file I/O) outside; kvxopt mass matrix stubbed in exploration.',
     'symbolic execution of real conversion/alteration code + z3 identities', 'DESIGN.md 3/C11')

prop('C10', 'other',
     'Real DAE.request_address executed on z3 integers (symbolic counter start and device count, numpy.arange as the arithmetic '
     'set it denotes) for nvar <= 8 and both layouts: blocks are pairwise disjoint, cover exactly the requested range, hold one '
     'address per device, counter advances (linear integer arithmetic, unbounded device count). Tag flow on real Systems (int and '
     'string indices, reversed add order, second addressing phase at TDS.init with GENCLS/GENROU/TGOV1/EXDC2): slot ownership, slot '
     'names, and the same symbol read through model, Model.get, group, external variable/parameter and global vector.',
     'tag flow is structural (solver decides equality of distinct symbols); systems of the catalogue only; GroupBase.get result '
     'array allocated with object dtype in exploration.',
     'SMT (LIA) over the real address allocator + symbolic tag flow through real link code', 'DESIGN.md 3/C10')

prop('C04', 'other',
     'Real Trapezoid/BackEuler.calc_q and calc_jac and the real ImplicitIter.step executed under pysym on symbolic state, '
     'derivatives, time constants, step size, Jacobian blocks, tolerance and per-iteration solver increments: calc_q is the rule '
     'residual, calc_jac its block Jacobian, the right-hand side sent to the solver in every iteration is [rule residual; '
     'g_scale*h*g] with pegged anti-windup rows overwritten, update by exactly the increment, accept => last increment within '
     'tolerance, reject => x,y,f exactly restored, zero step refused. Step-size bounds are proved in C06.',
     'linear solver returns an arbitrary vector (C16 covers the wrapper); fg_update and NaN test stubbed (listed); n,m <= 3, '
     'max_iter <= 3; order of convergence (a limit) outside.',
     'bounded symbolic execution of the real Newton step + z3 per-path queries', 'DESIGN.md 3/C04')

prop('C16', 'other',
     'PARTIAL. Real SuiteSparseSolver.solve and SpSolve.solve with the C-library calls replaced by a typestate model (symbolic '
     'factor remembers its pattern, numeric factor its matrix version; a stale pattern is undefined behaviour -- KLU does not check it -- '
     'so the wrapper must never pass one; singular => ArithmeticError with '
     'singularity a symbolic boolean per matrix), all call sequences <= 3: a result without NaN was computed with factors of the '
     'current matrix, singular => all-NaN, bounded retries; real ImplicitIter.step / PFlow.nr_step announce every Jacobian '
     'rebuild to the solver; the SciPy wrapper\'s one-shot entry point is stateless (a pending refresh survives interleaved linsolve calls); '
     'ipadd and rebuild accumulation of the real System.j_update agree entry-wise at a symbolic operating point.',
     'NOT covered (not encodable): numerical agreement of KLU/UMFPACK/SuperLU, numba on/off, bit-reproducibility across processes '
     '(C libraries, float non-associativity), CuPy.',
     'symbolic execution of the real wrapper over a typestate model of the factorisation objects', 'DESIGN.md 3/C16')

prop('C17', 'other',
     'Success/failure logic of the real routines executed under pysym with nondeterministic stubs for their collaborators '
     '(arbitrary mismatch sequences, NaN flags, sub-routine outcomes): every exit of PFlow.nr_solve/run, TDS.test_init, TDS.run and '
     'EIG.run on an unsolved power flow, System.setup with failed links and andes.main.run exit-code aggregation; success implies '
     'the residual test passed on the last evaluated iterate, every failure returns False with a raised exit code and no '
     'exception; test_init and the real PFlow.nr_step on residual vectors with not-a-number entries never report success / a small '
     'mismatch; one pass of the real TDS.run loop with the real stability criterion busts the run iff the rotor-angle spread exceeds the '
     'limit. Step-level facts are in C04/C06, the '
     'singular-matrix path in C16.',
     'NaN modelled through the flag of the isnan test (comparisons with a flagged value are false); file parsing failures and NaN '
     'propagation inside numpy/C outside; multi-case runs without pool lose exit codes (listed known finding).',
     'bounded symbolic execution of the real control flow over nondeterministic stubs', 'DESIGN.md 3/C17')

prop('C20', 'other',
     'CrossHair (z3-backed symbolic execution) on the real System._update_config_object: accepted <=> exactly one "=" and one "." '
     'left of it, stored parts are the stripped pieces, for all strings within the bound; pysym on the real option/file/default/'
     'dictionary plumbing with symbolic presence of each channel (real ConfigParser merge, real Config.__init__/load/add): option > '
     'file > default, options sharing a section or naming a section absent from the file; pysym on the real Config.check for every '
     'numeric alternatives tuple of System, routines and all models; z3 regular-language inclusion/disjointness for int/float '
     'rendering vs parsing in Config._set (type round trip), validated on the real _set; a field changed after construction '
     '(attribute assignment, update()) is the value collect_config/save_config write, and update() rejects a value outside the alternatives.',
     "option strings <= 4 chars over 'aB.= 1' (no '%': configparser interpolation is outside); rc file reading/writing (file I/O) "
     'outside; float(repr(x)) == x trusted.',
     'CrossHair + path-forking symbolic execution + z3 string theory', 'DESIGN.md 3/C20')

prop('C19', 'other',
     'Real GroupBase.get_next_idx/add/find_idx, ModelData.find_idx, System.collect_ref/set_backref, DeviceFinder.find_or_add and '
     'System.setup executed under pysym with SYMBOLIC index and field values (numbers whose coincidences z3 splits): indices of 3 '
     'successive additions are pairwise distinct and a free proposed index is kept; find results are exactly the devices whose field '
     'equals the query across both models of a group; back-reference lists hold exactly the referrers once each at model and group '
     'level; helpers are created at most once per missing target and measure the right bus; a dangling required reference is '
     'reported. Thorough adds CrossHair on string indices (length <= 3).',
     'symbolic indices are numbers (generated ones are strings); idx dictionaries answer symbolic look-ups by equality split (stub); '
     '3 additions, 2 models x 3 devices, 3 referrers.',
     'path-forking symbolic execution of the real index/reference code + z3', 'DESIGN.md 3/C19')

prop('C13', 'other',
     'PARTIAL. Real andes.io.matpower.mpc2system executed under pysym on symbolic bus/gen/branch rows (System.add recorded): the '
     'emitted devices carry MATPOWER semantics (p.u. by baseMVA, radians, r/x/b and Gs/Bs reproduced on the system base through the '
     "device's own base, ratio 0 => tap 1, shift on every branch, status, bus type => slack/PV, non-zero demand/shunt of either sign "
     '=> load/shunt); real system2mpc on stub systems with symbolic values: bus rows hold the sum of the in-service loads/shunts; '
     'round trip mpc -> system -> mpc is the identity on supported columns.',
     'NOT covered (not encodable): reading/writing xlsx, json, raw, dyr files (pandas, openpyxl, text->float, yaml mapping); PSS/E '
     'record parsers; area/zone columns.',
     'symbolic execution of the real format converters + z3', 'DESIGN.md 3/C13')

prop('C15', 'other',
     'PARTIAL. Tag flow (every stored value a distinct symbol, z3 decides equality) through the real DAE.store, '
     'DAETimeSeries.unpack_np/get_data, System.set_output_subidx/Output.to_output_addr on a real dynamic System for 3 stored steps and '
     'four Output selections (all / model / variable / device): one row per stored step with its time, exactly the selected '
     'columns, labels naming the kept slots, queries by variable and by device subset return those devices; the storing branch of '
     'the TDS.run loop (cut from source) keeps exactly the due steps for save_every 0..3; real DAE.write_npz chunking with the file '
     'replaced by an in-memory store writes every row once, in order, also when the series is kept between off-loads (resumed run); the '
     'file chain write_lst -> load_lst -> export_csv -> csv read-back with in-memory files and symbolic cells; queries by variable '
     'through the plotting loader address the columns of exactly those variables; replay from csv through the real TDS.run stores '
     'one row per row of the table (a table of distinct tags: deterministic, no solver needed).',
     'NOT covered (not encodable): number formatting/parsing of savetxt/loadtxt/read_csv, the npz container, plotting itself; '
     'store_z/f/h/i arrays.',
     'symbolic tag flow through the real storage code + z3', 'DESIGN.md 3/C15')

prop('C14', 'model_checking',
     'PARTIAL. On the time-grid state machine of the real TDS code: the exit state of the real TDS.run loop (test false without bust) is '
     't = tf with every switch time <= tf dispatched and success reported; from every such state with a later end time the real '
     'TDS.init_resume re-establishes the C06 loop invariant with the event pointer unmoved, positive progress and the fixed step '
     'respected, so by the C06 induction events are neither lost nor repeated and stamps keep increasing across an interruption '
     '(at, before or after an event); thorough: bounded split-vs-unsplit cross-check; System.reset + setup re-creates addresses and '
     'names and the repeated power flow reproduces the solution; the real fix_view_arrays re-attaches every internal variable array '
     'of every model (arrays detached the way unpickling leaves them, symbolic tags in the DAE arrays).',
     'NOT covered (not encodable): the dill serialisation itself, continuation in another process; trajectory '
     'equality up to discretisation error.',
     'bounded symbolic execution of the real resume code + z3 invariant check', 'DESIGN.md 3/C14')

prop('C07', 'other',
     'PARTIAL (model identity). The real TDS.fg_update of a single-machine-infinite-bus System built through the public API (Slack, 1-2 '
     'parallel Lines, GENCLS) at a fully symbolic point -- states, voltages, M, D, x\', ra, E\', Pm, f, every line parameter, machine and line '
     'statuses: z3 decides that the textbook closed-form stator solution annihilates every algebraic row of the machine, that the differential '
     'rows are delta\' = 2 pi f (omega-1) and M omega\' = Pm - E\'Iq - D(omega-1) (ra = 0: E\'V sin(delta-theta)/x\'), and that the bus rows are '
     'the independent polar network balance minus the classical terminal powers. With C04 the integrated recurrence is the discretisation '
     'of the reference ODE.',
     'NOT decided: the property\'s limit statement (convergence of the float trajectory as h -> 0, error bound at default settings) -- follows '
     'by the classical convergence theorem, which is not machine-checked; matrix-exponential benchmark on stock cases; other machine models.',
     'symbolic execution of the real residual assembly (pysym) + z3 identity check against a textbook oracle', 'DESIGN.md 3/C07')

prop('C05', 'other',
     'PARTIAL (per model; devices in service and arbitrary 0/1 statuses). For every dynamically initialised model of the tree the real initialisation order (init_seq '
     'of the generated module; declared initialisers, services, equations through an independent parser; limiter/comparison flags; '
     'iterative groups as symbols constrained by their v_iter equations) is executed over z3 terms, and z3 decides for ALL parameter and '
     'power-flow values that every differential right-hand side and every algebraic mismatch of the model vanishes at the initial '
     'point, and that the bus injection of a device that replaces a static generator equals its share p0s*gammap, q0s*gammaq of the '
     'power-flow injection (1641 of 1902 obligations over 73 models and two status scenarios, incl. GENCLS with its complex log/exp chain '
     'and most of GENROU, all TGOV/IEEEG/HYGOV '
     'governors, DC/AC/ST exciters, PSS, renewable and DG models). A refutation (or an unknown on a claimed obligation, at one generic '
     'point) is replayed numerically on the generated code (pycode) and reported only if the residual reproduces. test_init verdict <=> '
     'residual is in C17.',
     'NOT decided: obligations needing a premise about data (gate selection in HVG/LVG blocks, turbine power fractions, reference '
     'parameters) or about another device beyond the generic link facts -- listed per variable in the evidence as undecided; offline '
     'devices; bus-injection hand-over and gammap/gammaq split at system level (C07 has the SMIB instance); drift of an undisturbed '
     'run beyond the first step; GENROU saturation rows in the quick tier.',
     'symbolic execution of the declared initialisation sequence (eqsmt) + z3 with instantiated trig/exp/phasor lemmas', 'DESIGN.md 3/C05')

ORDER = ['C%02d' % i for i in range(1, 21)]
checks, na = [], []
for pid in ORDER:
    have = os.path.exists(os.path.join(V, 'checks', pid.lower() + '.py'))
    if pid in P and have and not P[pid]['na']:
        p = P[pid]
        checks.append(dict(property_id=pid, quick_cmd=f'./check {pid} --tier quick', thorough_cmd=f'./check {pid} --tier thorough',
                           evidence_file=f'evidence/{pid}.json', replay_cmd_template=f'./check {pid} --replay {{path}}',
                           engine='vlib', level_claimed=dict(category=p['category'], text=p['text'], design_ref=p['design_ref']),
                           level_note=p['note'], technique=p['technique']))
    else:
        na.append(dict(property_id=pid, reason=(P.get(pid, {}).get('na') or 'check not built yet (work in progress; see DESIGN.md section 3 for the planned solver kernel)')))
man = dict(version=1, setup_cmd='./setup.sh',
           hooks=dict(guard='ANDES_VERIF', enable='no source hooks: checks import /repo and substitute collaborators from outside; ANDES_VERIF=1 is exported by ./check but read by nothing in /repo',
                      baseline_off_cmd='cd /repo && /venv/bin/python -m pytest -ra -q -p no:cacheprovider --timeout=900 --continue-on-collection-errors',
                      source_commits=[], add_only=True),
           engines=[dict(name='eqsmt', path='vlib/eqsmt.py', serves_properties=['C01','C02','C03','C05','C07','C18'], kind_free_text='AST -> z3 term translation of generated code and declared equation strings, structural differentiator, lemma instantiation'),
                    dict(name='pysym', path='vlib/pysym.py', serves_properties=['C01','C03','C04','C06','C08','C09','C10','C11','C12','C13','C14','C15','C16','C17','C19','C20'], kind_free_text='path-forking symbolic execution of the real numpy code on z3-valued scalars in object arrays (fork on __bool__), z3 decides feasibility and the property per path')],
           checks=checks, not_applicable=na,
           notes='Solver-based checking of the real code; see DESIGN.md. Exit 0 held / 1 VIOLATION / 3 harness error.')
json.dump(man, open(os.path.join(V, 'MANIFEST.json'), 'w'), indent=1)
print('claimed', [c['property_id'] for c in checks])
