"""
Model-level glue between live ANDES model objects of the current tree (declared strings)
and the generated code on disk (GenModule) for the eqsmt engine.
"""
import os
import random
import math
import time

import numpy as np
import z3

from . import core, eqsmt
from .eqsmt import S, B, tos, tob, NS_DECL, NS_GEN, Ctx, Names, GenModule

_SS = None


def system():
    """one empty System per process, bound to code generated from the current tree"""
    global _SS
    if _SS is None:
        _SS = core.new_system()
    return _SS


def genmodule(mname):
    return GenModule(os.path.join(core.pycode_dir(), mname + '.py'))


def complex_services(m):
    return {n for n, s in list(m.services.items()) if getattr(s, 'vtype', float) == complex}


def fresh_names(m):
    """symbol table for model m: complex services as pairs, SubsService replaced by expression"""
    eqsmt.CTX = Ctx()
    known = set(m.cache.all_params_names) | set(m.cache.all_vars_names) | set(m.config.as_dict()) \
        | {'dae_t', 'sys_f', 'sys_mva'}
    names = Names(complex_services(m), known=known)
    for sn, sv in m.services_subs.items():
        if sv.v_str is not None:
            names[sn] = tos(eqsmt.ev_str(sv.v_str, names, NS_DECL))
    return names


def decl(s, names):
    """declared string -> symbolic value through the independent (non-sympy) front end"""
    if s is None:
        return S(z3.RealVal(0))
    return tos(eqsmt.ev_str(s, names, NS_DECL))


def subs_env(m, env):
    """extend numeric env with SubsService values"""
    for sn, sv in m.services_subs.items():
        if sv.v_str is not None:
            env[sn] = eqsmt.nev_str(sv.v_str, env)
    return env


def call_real(gen, fname, env, n=1, arglist=None):
    """call the real generated function on numpy arrays of length n built from env, arguments
    bound positionally through `arglist` exactly as Model.refresh_inputs_arg does"""
    args = []
    for a in (arglist if arglist is not None else gen.argnames(fname)):
        if a == '__zeros': args.append(np.zeros(n))
        elif a == '__ones': args.append(np.ones(n))
        elif a == '__falses': args.append(np.full(n, False))
        elif a == '__trues': args.append(np.full(n, True))
        else:
            v = env[a]
            args.append(np.array([v] * n, dtype=complex if isinstance(v, complex) else float))
    with np.errstate(all='ignore'):
        return gen.pyfunc(fname)(*args)


def first(x):
    """first element of whatever numpy returned (scalar, array, nested)"""
    a = np.asarray(x)
    if a.ndim == 0:
        return a.item()
    return a.ravel()[0].item() if hasattr(a.ravel()[0], 'item') else a.ravel()[0]


def rand_env(argnames, cx, rng, scale=1.0):
    env = {}
    for a in argnames:
        if a.startswith('__'):
            continue
        if a in cx:
            env[a] = complex(rng.uniform(-1, 1) * scale, rng.uniform(-1, 1) * scale)
        else:
            env[a] = rng.choice([1, 1, -1]) * rng.uniform(0.05, 1.5) * scale
    return env


def finite(x):
    try:
        z = complex(x)
        return not (math.isnan(z.real) or math.isnan(z.imag) or math.isinf(z.real) or math.isinf(z.imag))
    except Exception:
        return False
