"""
dshim: dense stand-in for kvxopt matrix / spmatrix / sparse / spdiag and a dense linear solve,
with entries that may be pysym symbols.  Used where the code under test does dense-style
linear algebra (EIG, _calc_h_first).  STUB (listed in evidence); `selftest()` compares it with
the real kvxopt on concrete data at every run.
"""
import numpy as np


def _l(x):
    if isinstance(x, M):
        return [v for col in zip(*x.r) for v in col] if x.shape[1] != 1 else [r[0] for r in x.r]
    if isinstance(x, np.ndarray):
        return x.ravel().tolist()
    return list(x)


class M:
    def __init__(self, rows, shape=None):
        self.r = [list(r) for r in rows]
        self.shape = shape if shape is not None else (len(self.r), len(self.r[0]) if self.r else 0)

    @property
    def size(self):
        return self.shape

    def _bin(self, o, f):
        if isinstance(o, M):
            if o.shape != self.shape:
                raise TypeError('incompatible dimensions')
            return M([[f(a, b) for a, b in zip(ra, rb)] for ra, rb in zip(self.r, o.r)], self.shape)
        return M([[f(a, o) for a in ra] for ra in self.r], self.shape)

    def __add__(self, o): return self._bin(o, lambda a, b: a + b)
    def __sub__(self, o): return self._bin(o, lambda a, b: a - b)
    def __neg__(self): return M([[-a for a in r] for r in self.r], self.shape)

    def __mul__(self, o):
        if isinstance(o, M):
            n, k = self.shape
            k2, m = o.shape
            if k != k2:
                raise TypeError('incompatible dimensions')
            out = [[0.0 for _ in range(m)] for _ in range(n)]
            for i in range(n):
                for j in range(m):
                    acc = 0.0
                    for t in range(k):
                        acc = acc + self.r[i][t] * o.r[t][j]
                    out[i][j] = acc
            return M(out, (n, m))
        return M([[a * o for a in r] for r in self.r], self.shape)

    def __rmul__(self, o):
        return M([[o * a for a in r] for r in self.r], self.shape)

    def __getitem__(self, key):
        i, j = key
        if isinstance(i, slice) or isinstance(j, slice):
            ri = list(range(*i.indices(self.shape[0]))) if isinstance(i, slice) else [i]
            rj = list(range(*j.indices(self.shape[1]))) if isinstance(j, slice) else [j]
            return M([[self.r[a][b] for b in rj] for a in ri], (len(ri), len(rj)))
        if not (0 <= i < self.shape[0] and 0 <= j < self.shape[1]):
            raise IndexError('index out of range')
        return self.r[i][j]

    def __setitem__(self, key, v):
        self.r[key[0]][key[1]] = v

    @property
    def T(self):
        return M([list(c) for c in zip(*self.r)] if self.r and self.shape[1] else [[] for _ in range(self.shape[1])],
                 (self.shape[1], self.shape[0]))

    def trans(self):
        return self.T

    def __len__(self):
        return self.shape[0] * self.shape[1]

    def __iter__(self):
        # kvxopt iterates in column-major order
        for j in range(self.shape[1]):
            for i in range(self.shape[0]):
                yield self.r[i][j]


def matrix(x, size=None, tc='d'):
    if isinstance(x, M):
        return M(x.r, x.shape)
    x = np.asarray(x, dtype=object) if not isinstance(x, np.ndarray) else x
    if x.ndim == 1:
        return M([[v] for v in x.tolist()], (len(x), 1))
    return M(x.tolist(), x.shape)


def spmatrix(V, I, J, size=None, tc='d'):
    I = [int(v) for v in _l(I)]
    J = [int(v) for v in _l(J)]
    V = _l(V) if not isinstance(V, (int, float)) else [V] * len(I)
    if size is None:
        size = (max(I) + 1 if I else 0, max(J) + 1 if J else 0)
    out = [[0.0 for _ in range(size[1])] for _ in range(size[0])]
    for v, i, j in zip(V, I, J):
        if not (0 <= i < size[0] and 0 <= j < size[1]):
            raise TypeError('index out of range')
        out[i][j] = out[i][j] + v
    return M(out, tuple(size))


def sparse(x, tc='d'):
    return M(x.r, x.shape) if isinstance(x, M) else x


def spdiag(l):
    l = _l(l)
    n = len(l)
    return M([[l[i] if i == j else 0.0 for j in range(n)] for i in range(n)], (n, n))


def det(A):
    n = len(A)
    if n == 0:
        return 1.0
    if n == 1:
        return A[0][0]
    tot = 0.0
    for j in range(n):
        minor = [row[:j] + row[j + 1:] for row in A[1:]]
        tot = tot + ((-1) ** j) * A[0][j] * det(minor)
    return tot


def adj(A):
    n = len(A)
    if n == 1:
        return [[1.0]]
    out = [[0.0] * n for _ in range(n)]
    for i in range(n):
        for j in range(n):
            minor = [row[:j] + row[j + 1:] for k, row in enumerate(A) if k != i]
            out[j][i] = ((-1) ** (i + j)) * det(minor)
    return out


def linsolve(A, B):
    """in-place B := A^{-1} B.  Symbolic data: solution entries are fresh unknowns X with the polynomial
    definition A X = B and det A != 0 (division-free); concrete data: numpy solve."""
    from . import pysym
    n = A.shape[0]
    if n != A.shape[1] or n != B.shape[0]:
        raise TypeError('incompatible dimensions')
    if n == 0:
        return
    if all(not isinstance(v, (pysym.SR, pysym.SB)) for row in A.r + B.r for v in row):
        sol = np.linalg.solve(np.array(A.r, dtype=float), np.array(B.r, dtype=float))
        for i in range(n):
            for c in range(B.shape[1]):
                B.r[i][c] = float(sol[i][c])
        return
    X = [[pysym.SR(pysym.ENG.fresh('x')) for c in range(B.shape[1])] for i in range(n)]
    AX = A * M(X, (n, B.shape[1]))
    for i in range(n):
        for c in range(B.shape[1]):
            pysym.ENG.defs.append(pysym.lift(AX.r[i][c]) == pysym.lift(B.r[i][c]))
    pysym.ENG.defs.append(pysym.lift(det(A.r)) != 0)
    for i in range(n):
        for c in range(B.shape[1]):
            B.r[i][c] = X[i][c]


def selftest(seed=0, rounds=30):
    import random
    import kvxopt
    rng = random.Random(seed)
    bad = 0
    for _ in range(rounds):
        n = rng.randint(1, 3)
        A = [[rng.choice([0.0, 1.0, 2.0, -1.5]) for _ in range(n)] for _ in range(n)]
        B = [[rng.choice([0.0, 1.0, -2.0]) for _ in range(n)] for _ in range(n)]
        a, b = M(A), M(B)
        ka, kb = kvxopt.matrix(np.array(A)), kvxopt.matrix(np.array(B))
        p, kp = a * b, ka * kb
        if [round(v, 9) for v in p] != [round(v, 9) for v in kp]:
            bad += 1
        s, ks = a[:1, :], ka[:1, :]
        if list(s) != list(ks) or s.size != ks.size:
            bad += 1
        d = spdiag([1.0, 2.0]); kd = kvxopt.spdiag([1.0, 2.0])
        if list(d) != list(kvxopt.matrix(kd)):
            bad += 1
        pm = spmatrix(matrix(np.ones(n)), matrix(np.arange(n)), matrix(np.arange(n)[::-1]))
        kpm = kvxopt.spmatrix(kvxopt.matrix(np.ones(n)), kvxopt.matrix(np.arange(n)), kvxopt.matrix(np.arange(n)[::-1]))
        if list(pm) != list(kvxopt.matrix(kpm)):
            bad += 1
    return bad
