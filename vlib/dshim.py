"""Dense symbolic stand-in for kvxopt matrix/spmatrix/sparse/spdiag (entries: numbers or pysym.SR)."""
import numpy as np
class M:
    def __init__(self, rows):
        self.r = [list(r) for r in rows]
    @property
    def size(self): return (len(self.r), len(self.r[0]) if self.r else 0)
    def _bin(self, o, f):
        if isinstance(o, M): return M([[f(a, b) for a, b in zip(ra, rb)] for ra, rb in zip(self.r, o.r)])
        return M([[f(a, o) for a in ra] for ra in self.r])
    def __add__(self, o): return self._bin(o, lambda a, b: a + b)
    def __sub__(self, o): return self._bin(o, lambda a, b: a - b)
    def __neg__(self): return M([[-a for a in r] for r in self.r])
    def __mul__(self, o):
        if isinstance(o, M):
            n, k = self.size; k2, m = o.size; assert k == k2, (self.size, o.size)
            out = [[0 for _ in range(m)] for _ in range(n)]
            for i in range(n):
                for j in range(m):
                    acc = 0
                    for t in range(k): acc = acc + self.r[i][t] * o.r[t][j]
                    out[i][j] = acc
            return M(out)
        return M([[a * o for a in r] for r in self.r])
    __rmul__ = lambda self, o: M([[o * a for a in r] for r in self.r])
    def __getitem__(self, key):
        i, j = key
        if isinstance(i, slice) or isinstance(j, slice):
            ri = range(*i.indices(self.size[0])) if isinstance(i, slice) else [i]
            rj = range(*j.indices(self.size[1])) if isinstance(j, slice) else [j]
            return M([[self.r[a][b] for b in rj] for a in ri])
        return self.r[i][j]
    def __setitem__(self, key, v): self.r[key[0]][key[1]] = v
def matrix(x, size=None, tc='d'):
    if isinstance(x, M): return M(x.r)
    x = np.asarray(x)
    if x.ndim == 1: return M([[v] for v in x.tolist()])
    return M(x.tolist())
def spmatrix(V, I, J, size=None, tc='d'):
    V = [v[0] for v in V.r] if isinstance(V, M) else list(V)
    I = [int(v[0]) for v in I.r] if isinstance(I, M) else [int(i) for i in I]
    J = [int(v[0]) for v in J.r] if isinstance(J, M) else [int(j) for j in J]
    if size is None: size = (max(I) + 1, max(J) + 1)
    out = [[0 for _ in range(size[1])] for _ in range(size[0])]
    for v, i, j in zip(V, I, J): out[i][j] = out[i][j] + v
    return M(out)
def sparse(x, tc='d'): return M(x.r) if isinstance(x, M) else x
def spdiag(l):
    n = len(l); return M([[l[i] if i == j else 0 for j in range(n)] for i in range(n)])
def det(A):
    n = len(A)
    if n == 0: return 1
    if n == 1: return A[0][0]
    tot = 0
    for j in range(n):
        minor = [row[:j] + row[j+1:] for row in A[1:]]
        tot = tot + ((-1) ** j) * A[0][j] * det(minor)
    return tot
def linsolve(A, B):
    """in-place B := A^{-1} B; solution entries are fresh symbols X with A X = B (polynomial definition)"""
    from . import pysym
    import z3
    n = A.size[0]
    X = [[pysym.SR(z3.Real(f'__x{id(B)%9973}_{i}_{c}')) for c in range(B.size[1])] for i in range(n)]
    AX = (A * M(X))
    for i in range(n):
        for c in range(B.size[1]):
            pysym.DEFS.append(pysym.lift(AX.r[i][c]) == pysym.lift(B.r[i][c]))
    pysym.DEFS.append(pysym.lift(det(A.r)) != 0)
    for i in range(n):
        for c in range(B.size[1]): B.r[i][c] = X[i][c]
    return
def linsolve_cramer(A, B):
    n = A.size[0]; d = det(A.r)
    cols = []
    for c in range(B.size[1]):
        sol = []
        for k in range(n):
            Ak = [[(B.r[i][c] if j == k else A.r[i][j]) for j in range(n)] for i in range(n)]
            sol.append(det(Ak) / d)
        cols.append(sol)
    for i in range(n):
        for c in range(B.size[1]): B.r[i][c] = cols[c][i]
