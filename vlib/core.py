"""
Common run-time support for all checks: tiers, scratch dirs, code generation from the
current /repo tree, obligation bookkeeping, known findings, replay files, evidence.

Exit codes (DESIGN.md 6): 0 held on everything explored, 1 VIOLATION, 3 harness error.
"""
import atexit
import hashlib
import inspect
import json
import os
import shutil
import sys
import tempfile
import time
import traceback

VERIF = os.path.dirname(os.path.dirname(os.path.abspath(__file__)))
REPO = os.environ.get('VERIF_REPO', '/repo')
HARNESS_ERROR = 3


def tier():
    t = os.environ.get('VERIF_TIER', 'quick')
    return t if t in ('quick', 'thorough') else 'quick'


def seed():
    try:
        return int(os.environ.get('VERIF_SEED', '0'))
    except ValueError:
        return 0


def ncpu():
    try:
        return max(1, min(16, len(os.sched_getaffinity(0))))
    except Exception:
        return max(1, min(16, os.cpu_count() or 1))


# ------------------------------------------------------------------ scratch
_WORK = None


def workdir():
    """scratch directory outside /repo and /verif, removed at exit"""
    global _WORK
    if _WORK is None:
        base = os.environ.get('VERIF_WORK')
        if base:
            os.makedirs(base, exist_ok=True)
            _WORK = tempfile.mkdtemp(prefix='w', dir=base)
        else:
            _WORK = tempfile.mkdtemp(prefix='andes-verif-')
        pid = os.getpid()

        def _rm(p=_WORK, pid=pid):
            if os.getpid() == pid:
                shutil.rmtree(p, ignore_errors=True)
        atexit.register(_rm)
    return _WORK


def isolate_home():
    """point HOME at scratch so ~/.andes of the sandbox user is neither read nor written"""
    h = os.path.join(workdir(), 'home')
    os.makedirs(h, exist_ok=True)
    os.environ['HOME'] = h
    os.environ.setdefault('MPLBACKEND', 'Agg')
    os.environ.setdefault('NUMBA_DISABLE_JIT', '1')
    return h


def tree_hash():
    """content hash of every python/yaml file of /repo/andes (current working tree)"""
    h = hashlib.sha1()
    root = os.path.join(REPO, 'andes')
    for d, dirs, files in os.walk(root):
        dirs.sort()
        if '__pycache__' in d or os.sep + 'cases' in d:
            continue
        for f in sorted(files):
            if f.endswith(('.py', '.yaml')):
                p = os.path.join(d, f)
                h.update(p.encode())
                with open(p, 'rb') as fh:
                    h.update(fh.read())
    return h.hexdigest()[:16]


def pycode_dir(fresh=False):
    """
    Directory with the generated code of all models, produced by the real
    ``System.prepare`` of the current /repo tree.  Several checks of one sweep share one
    generation through a cache keyed by the content hash of the tree (so any edit of
    /repo regenerates); ``fresh=True`` always generates into the private scratch dir.
    """
    isolate_home()
    if os.environ.get('VERIF_PYCODE') and not fresh:
        return os.environ['VERIF_PYCODE']
    if fresh:
        out = tempfile.mkdtemp(prefix='pycode-', dir=workdir())
        _gen(out)
        return out
    cache_root = os.environ.get('VERIF_CACHE', os.path.join(tempfile.gettempdir(), 'andes-verif-cache'))
    os.makedirs(cache_root, exist_ok=True)
    th = tree_hash()
    out = os.path.join(cache_root, th)
    if os.path.exists(os.path.join(out, '.done')):
        try:
            os.utime(out)          # a cache that is in use is not stale
        except OSError:
            pass
        return os.path.join(out, 'pycode')
    # prune stale caches (other tree hashes) to keep disk use bounded
    for n in os.listdir(cache_root):
        p = os.path.join(cache_root, n)
        if n != th and not n.startswith('tmp') and os.path.isdir(p):
            try:
                if time.time() - os.path.getmtime(p) > 3600:
                    shutil.rmtree(p, ignore_errors=True)
            except OSError:
                pass
    tmp = tempfile.mkdtemp(prefix='tmp', dir=cache_root)
    _gen(os.path.join(tmp, 'pycode'))
    open(os.path.join(tmp, '.done'), 'w').write(th)
    try:
        os.rename(tmp, out)
    except OSError:
        shutil.rmtree(tmp, ignore_errors=True)   # lost the race; the winner's copy is equivalent
    return os.path.join(out, 'pycode')


def _gen(path):
    """run the real code generator of the current tree in a separate process (so this process
    never imports the `pycode` package from a temporary location)"""
    import subprocess
    os.makedirs(path, exist_ok=True)
    code = ("import andes, sys; andes.config_logger(40); "
            "ss = andes.System(no_undill=True, default_config=True, options={'pycode_path': sys.argv[1]}); "
            f"ss.prepare(quick=True, ncpu={ncpu()})")
    r = subprocess.run([sys.executable, '-c', code, path], capture_output=True, text=True, env=dict(os.environ))
    if r.returncode != 0 or not os.path.exists(os.path.join(path, '__init__.py')):
        raise RuntimeError('code generation failed:\n' + (r.stdout + r.stderr)[-2000:])


def new_system(**kw):
    """empty System of the current tree bound to freshly generated code"""
    import andes
    andes.config_logger(40)
    p = pycode_dir()
    opts = dict(kw.pop('options', {}) or {})
    opts['pycode_path'] = p
    return andes.System(default_config=True, options=opts, **kw)


def load_case(path, **kw):
    import andes
    andes.config_logger(40)
    p = pycode_dir()
    kw.setdefault('no_output', True)
    kw.setdefault('default_config', True)
    return andes.load(path, pycode_path=p, **kw)


def src_sha(obj):
    try:
        s = inspect.getsource(obj)
    except Exception:
        s = repr(obj)
    return hashlib.sha1(s.encode()).hexdigest()[:12]


def qualname(obj):
    return f'{getattr(obj, "__module__", "?")}.{getattr(obj, "__qualname__", getattr(obj, "__name__", repr(obj)))}'


# ------------------------------------------------------------------ known findings
def load_known():
    p = os.path.join(VERIF, 'known_findings.json')
    if not os.path.exists(p):
        return []
    return json.load(open(p))


def jsonable(x):
    import fractions
    try:
        import numpy as np
    except Exception:
        np = None
    if isinstance(x, dict):
        return {str(k): jsonable(v) for k, v in x.items()}
    if isinstance(x, (list, tuple, set)):
        return [jsonable(v) for v in x]
    if isinstance(x, (str, int, float, bool)) or x is None:
        return x
    if isinstance(x, fractions.Fraction):
        return float(x)
    if np is not None:
        if isinstance(x, np.ndarray):
            return jsonable(x.tolist())
        if isinstance(x, np.generic):
            return x.item()
    return str(x)


class Check:
    """
    Bookkeeping for one check run.

    status values of an obligation:
      unsat               solver showed the negated property unsatisfiable within the bound
      sat-replayed        counterexample reproduced on the real code  -> violation (or known finding)
      sat-rounding        counterexample reproduced only at rounding level (< 1e-9 rel.) -> not a violation
      sat-not-reproduced  counterexample did not reproduce -> harness error (exit 3)
      unknown             timeout / solver gave up -> inconclusive (reported, never success)
      witness-ok          vacuity twin came back sat as required
      witness-missing     vacuity twin unexpectedly unsat/unknown -> harness error
    """

    def __init__(self, pid, level, explanation=''):
        self.pid = pid
        self.level = level
        self.explanation = explanation
        self.t0 = time.time()
        self.obs = []
        self.functions = {}
        self.bounds = {}
        self.assumptions = []
        self.stubs = []
        self.outside = []
        self.samples = []
        self.extra = {}
        self.paths = 0
        self.solver_s = 0.0
        self.violations = []      # (harness, region, desc, replay path)
        self.known_hits = []
        self.errors = []
        self.known = [k for k in load_known() if k.get('property') == pid]
        self.nontrivial = set()
        self._seen = {}

    # -- declaration helpers
    def encodes(self, *objs):
        for o in objs:
            self.functions[qualname(o)] = src_sha(o)

    def bound(self, **kw):
        self.bounds.update(kw)

    def assume(self, *txt):
        for t in txt:
            if t not in self.assumptions:
                self.assumptions.append(t)

    def stub(self, *txt):
        for t in txt:
            if t not in self.stubs:
                self.stubs.append(t)

    def out(self, *txt):
        for t in txt:
            if t not in self.outside:
                self.outside.append(t)

    def sample(self, obj, cap=12):
        if len(self.samples) < cap:
            self.samples.append(jsonable(obj))

    # -- results
    def ob(self, harness, name, status, secs=0.0, detail=None, nontrivial=True):
        self.obs.append((harness, name, status, round(float(secs), 4)))
        self.solver_s += float(secs)
        if nontrivial:
            self.nontrivial.add((harness, name))
        if detail is not None and status not in ('unsat', 'witness-ok'):
            self.extra.setdefault('inconclusive_or_sat', []).append(
                jsonable({'harness': harness, 'name': name, 'status': status, 'detail': detail}))
        if status == 'witness-missing':
            self.errors.append(f'{harness}:{name}:{status}')

    def merge(self, results):
        """results: iterable of dicts produced by worker processes"""
        for r in results:
            kind = r.get('kind', 'ob')
            if kind == 'ob':
                self.ob(r['harness'], r['name'], r['status'], r.get('secs', 0.0), r.get('detail'),
                        r.get('nontrivial', True))
            elif kind == 'violation':
                self.violation(r['harness'], r['region'], r['desc'], r['replay'])
            elif kind == 'paths':
                self.paths += r['n']
            elif kind == 'sample':
                self.sample(r['obj'])
            elif kind == 'error':
                self.errors.append(r['msg'])
            elif kind == 'ob_time':
                self.solver_s += r.get('secs', 0.0)
                self.extra['feasibility_queries'] = self.extra.get('feasibility_queries', 0) + r.get('queries', 0)
            elif kind == 'encodes':
                self.functions.update(r['functions'])

    def is_known(self, harness, region):
        for k in self.known:
            if k.get('kind') == 'known' and k.get('harness') == harness and k.get('region') == region:
                return k
        return None

    def violation(self, harness, region, desc, replay):
        """
        A counterexample that REPRODUCED on the real code.  `region` names the input region /
        call site (a predicate implemented by the harness); if known_findings.json lists
        (harness, region) as known it is printed as KNOWN-FINDING, otherwise VIOLATION.
        """
        k = self.is_known(harness, region)
        if (harness, region) in self._seen:
            self._seen[(harness, region)] += 1
            return
        self._seen[(harness, region)] = 1
        os.makedirs(os.path.join(VERIF, 'replays'), exist_ok=True)
        body = json.dumps(jsonable({'property': self.pid, 'harness': harness, 'region': region,
                                    'desc': desc, 'replay': replay}), indent=1, sort_keys=True)
        h = hashlib.sha1((harness + '|' + str(region)).encode()).hexdigest()[:10]
        path = os.path.join(VERIF, 'replays', f'{self.pid}-{h}.json')
        with open(path, 'w') as f:
            f.write(body)
        if k is not None:
            self.known_hits.append((harness, region, desc))
            print(f'KNOWN-FINDING: property={self.pid} {harness}/{region}: {k.get("what", desc)}', flush=True)
        else:
            self.violations.append((harness, region, desc, path))
            print(f'VIOLATION property={self.pid} replay={path}', flush=True)
            print(f'  {harness}/{region}: {desc}', flush=True)

    # -- end
    def finish(self):
        wall = time.time() - self.t0
        cnt = {}
        for _, _, st, _ in self.obs:
            cnt[st] = cnt.get(st, 0) + 1
        n_q = len(self.obs)
        cov = {
            'evaluations': max(n_q, 1),
            'distinct_nontrivial': len(self.nontrivial),
            'rule': 'one evaluation = one solver query (negated obligation or vacuity twin) built from the current '
                    'source of the listed functions; distinct = distinct (harness, obligation name) whose terms '
                    'contain at least one symbolic input',
            'samples': self.samples or [{'note': 'no sample recorded'}],
            'explanation': self.explanation,
            'functions_encoded': self.functions,
            'bounds': self.bounds,
            'paths_explored': self.paths,
            'queries': cnt,
            'obligations': sum(v for k, v in cnt.items() if not k.startswith('witness')),
            'discharged': cnt.get('unsat', 0),
            'inconclusive': cnt.get('unknown', 0),
            'vacuity_witnesses': cnt.get('witness-ok', 0),
            'solver_time_s': round(self.solver_s, 2),
            'stubs': self.stubs,
            'outside_the_claim': self.outside,
            'known_findings_hit': [list(k) for k in self.known_hits],
            'counterexamples_per_region': {f'{h}/{r}': n for (h, r), n in self._seen.items()},
            'programs': max(len(self.functions), 1),
            'disagreements_checked': cnt.get('sat-replayed', 0) + cnt.get('sat-not-reproduced', 0)
            + cnt.get('sat-rounding', 0),
            'exhaustive': False,
        }
        cov.update(self.extra)
        ev = {
            'property_id': self.pid, 'tier': tier(), 'seed': seed(), 'level': self.level,
            'coverage': cov, 'assumptions': self.assumptions + ['stub: ' + s for s in self.stubs],
            'wall_s': round(wall, 2), 'violations': len(self.violations),
        }
        evdir = os.environ.get('VERIF_EVIDENCE_DIR') or os.path.join(VERIF, 'evidence')      # override: trial runs against a scratch tree
        os.makedirs(evdir, exist_ok=True)
        with open(os.path.join(evdir, f'{self.pid}.json'), 'w') as f:
            json.dump(jsonable(ev), f, indent=1, sort_keys=True)
        print(f'[{self.pid}] tier={tier()} obligations={cov["obligations"]} {cnt} paths={self.paths} '
              f'solver={cov["solver_time_s"]}s wall={round(wall, 1)}s', flush=True)
        if self.violations:
            sys.exit(1)
        if self.errors:
            print(f'[{self.pid}] HARNESS ERROR: ' + '; '.join(self.errors[:10]), flush=True)
            sys.exit(HARNESS_ERROR)
        sys.exit(0)


def run_main(fn):
    """wrap a check's main(): unexpected exceptions are harness errors (exit 3), never 0 or 1"""
    try:
        fn()
    except SystemExit:
        raise
    except BaseException:
        traceback.print_exc()
        sys.stdout.flush()
        sys.exit(HARNESS_ERROR)


def pmap(fn, jobs, procs=None, job_seconds=None):
    """run fn over jobs in forked worker processes; fn returns a list of result dicts.  A job that exceeds the hard wall limit
    (VERIF_JOB_SECONDS, default 900 s, measured from the moment its result is awaited) is reported as `unknown`
    and its worker is killed when the pool is torn down -- never counted as held."""
    import multiprocessing as mp
    procs = procs or ncpu()
    if procs == 1 or len(jobs) <= 1:
        out = []
        for j in jobs:
            out.extend(_safe(fn, j))
        return out
    limit = job_seconds or float(os.environ.get('VERIF_JOB_SECONDS', '900'))
    ctx = mp.get_context('fork')
    pool = ctx.Pool(min(procs, len(jobs)))
    out = []
    try:
        pending = [(j, pool.apply_async(_Safe(fn), (j,))) for j in jobs]
        for j, ar in pending:
            try:
                out.extend(ar.get(timeout=limit))
            except mp.TimeoutError:
                out.append({'harness': f'job {str(j)[:80]}', 'name': 'hard wall limit', 'status': 'unknown',
                            'detail': f'no result within {limit:.0f} s: not explored'})
    finally:
        pool.terminate()
        pool.join()
    return out


class _Safe:
    def __init__(self, fn):
        self.fn = fn

    def __call__(self, j):
        return _safe(self.fn, j)


def _safe(fn, j):
    try:
        return list(fn(j))
    except BaseException as e:   # noqa
        return [{'kind': 'error', 'msg': f'job {str(j)[:80]}: {type(e).__name__}: {str(e)[:300]}',
                 'tb': traceback.format_exc()[-1500:]}]
