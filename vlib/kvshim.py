"""Minimal pure-Python stand-in for kvxopt.spmatrix/sparse/matrix (dense storage of explicit entries)."""
from . import pysym
class spmatrix:
    def __init__(self, V, I, J, size=None, tc='d'):
        V = list(V) if hasattr(V, '__iter__') else [V] * len(I)
        I = [int(i) for i in I]; J = [int(j) for j in J]
        if size is None: size = (max(I) + 1, max(J) + 1)
        self.size = tuple(size)
        self.d = {}   # (i, j) -> value; explicit entries (may be symbolic zero)
        for v, i, j in zip(V, I, J):
            assert 0 <= i < size[0] and 0 <= j < size[1]
            self.d[(i, j)] = self.d[(i, j)] + v if (i, j) in self.d else v
    def _keys(self): return sorted(self.d, key=lambda k: (k[1], k[0]))   # column-major like CCS
    @property
    def I(self): return [k[0] for k in self._keys()]
    @property
    def J(self): return [k[1] for k in self._keys()]
    @property
    def V(self): return [self.d[k] for k in self._keys()]
    def __add__(self, o):
        r = spmatrix([], [], [], self.size); r.d = dict(self.d)
        for k, v in o.d.items(): r.d[k] = r.d[k] + v if k in r.d else v
        return r
    __iadd__ = __add__
    def __mul__(self, o):
        assert self.size[1] == o.size[0]
        r = spmatrix([], [], [], (self.size[0], o.size[1]))
        for (i, k), a in self.d.items():
            for (k2, j), b in o.d.items():
                if k == k2:
                    r.d[(i, j)] = r.d[(i, j)] + a * b if (i, j) in r.d else a * b
        return r
    def __getitem__(self, key):
        i, j = key
        if isinstance(j, slice) and not isinstance(i, slice):
            if not 0 <= i < self.size[0]: raise IndexError('index out of range')
            r = spmatrix([], [], [], (1, self.size[1]))
            r.d = {(0, jj): v for (ii, jj), v in self.d.items() if ii == i}
            return r
        return self.d.get((i, j), 0.0)
def sparse(x, tc='d'):
    r = spmatrix([], [], [], x.size)
    r.d = {k: v for k, v in x.d.items() if not (v == 0)}     # forks on symbolic zero test
    return r
class matrix(list):
    def __init__(self, x):
        if isinstance(x, spmatrix):
            super().__init__([x.d.get((i, j), 0.0) for j in range(x.size[1]) for i in range(x.size[0])])
        else: super().__init__(x)
