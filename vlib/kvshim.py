"""
kvshim: a small pure-Python stand-in for the parts of kvxopt that ANDES' own Python code
uses (spmatrix / sparse / matrix / spdiag, ipadd / ipset), storing explicit entries in a
dictionary so that entries may be pysym symbols.  It is a STUB (listed in evidence): its
agreement with the real kvxopt on concrete data is established by `selftest()` which the
checks call at every run.
"""
import numpy as np

from . import pysym


def _aslist(x, n=None):
    if isinstance(x, matrix):
        return list(x)
    if isinstance(x, np.ndarray):
        return x.ravel().tolist()
    if isinstance(x, (list, tuple, range)):
        return list(x)
    return [x] * (n if n is not None else 1)


class spmatrix:
    def __init__(self, V, I, J, size=None, tc='d'):
        I = [int(i) for i in _aslist(I)]
        J = [int(j) for j in _aslist(J)]
        V = _aslist(V, len(I))
        if len(V) == 1 and len(I) > 1:
            V = V * len(I)
        if not (len(V) == len(I) == len(J)):
            raise TypeError('V, I, J must have the same length')
        if size is None:
            size = (max(I) + 1 if I else 0, max(J) + 1 if J else 0)
        self.size = (int(size[0]), int(size[1]))
        self.d = {}
        for v, i, j in zip(V, I, J):
            if not (0 <= i < self.size[0] and 0 <= j < self.size[1]):
                raise TypeError('index out of range')
            self.d[(i, j)] = self.d[(i, j)] + v if (i, j) in self.d else v

    def _keys(self):
        return sorted(self.d, key=lambda k: (k[1], k[0]))   # CCS order

    @property
    def I(self): return [k[0] for k in self._keys()]
    @property
    def J(self): return [k[1] for k in self._keys()]
    @property
    def V(self): return [self.d[k] for k in self._keys()]

    def __len__(self):
        return len(self.d)

    def copy(self):
        r = spmatrix([], [], [], self.size)
        r.d = dict(self.d)
        return r

    def __add__(self, o):
        if not isinstance(o, spmatrix):
            return NotImplemented
        if o.size != self.size:
            raise TypeError('incompatible dimensions')
        r = self.copy()
        for k, v in o.d.items():
            r.d[k] = r.d[k] + v if k in r.d else v
        return r

    def __iadd__(self, o):
        # kvxopt: in-place add requires that the pattern of `o` is contained in self's; else TypeError
        r = self.__add__(o)
        self.d = r.d
        return self

    def __neg__(self):
        r = self.copy()
        r.d = {k: -v for k, v in r.d.items()}
        return r

    def __sub__(self, o):
        return self + (-o)

    def __mul__(self, o):
        if isinstance(o, spmatrix):
            if self.size[1] != o.size[0]:
                raise TypeError('incompatible dimensions')
            r = spmatrix([], [], [], (self.size[0], o.size[1]))
            for (i, k), a in self.d.items():
                for (k2, j), b in o.d.items():
                    if k == k2:
                        r.d[(i, j)] = r.d[(i, j)] + a * b if (i, j) in r.d else a * b
            return r
        r = self.copy()
        r.d = {k: v * o for k, v in r.d.items()}
        return r
    __rmul__ = lambda self, o: self.__mul__(o)

    def __getitem__(self, key):
        i, j = key
        if isinstance(i, (int, np.integer)) and isinstance(j, (int, np.integer)):
            if not (0 <= i < self.size[0] and 0 <= j < self.size[1]):
                raise IndexError('index out of range')
            return self.d.get((int(i), int(j)), 0.0)
        ri = range(*i.indices(self.size[0])) if isinstance(i, slice) else ([int(i)] if isinstance(i, (int, np.integer)) else [int(t) for t in _aslist(i)])
        rj = range(*j.indices(self.size[1])) if isinstance(j, slice) else ([int(j)] if isinstance(j, (int, np.integer)) else [int(t) for t in _aslist(j)])
        for a in ri:
            if not 0 <= a < self.size[0]:
                raise IndexError('index out of range')
        for b in rj:
            if not 0 <= b < self.size[1]:
                raise IndexError('index out of range')
        r = spmatrix([], [], [], (len(ri), len(rj)))
        for a_, a in enumerate(ri):
            for b_, b in enumerate(rj):
                if (a, b) in self.d:
                    r.d[(a_, b_)] = self.d[(a, b)]
        return r

    def __setitem__(self, key, val):
        i, j = key
        self.d[(int(i), int(j))] = val

    def ipadd(self, V, I, J):
        """in-place add to EXISTING entries (kvxopt raises if the position is not in the pattern)"""
        I, J = _aslist(I), _aslist(J)
        V = _aslist(V, len(I))
        for v, i, j in zip(V, I, J):
            k = (int(i), int(j))
            if k not in self.d:
                raise ValueError('ipadd: position not in sparsity pattern')
            self.d[k] = self.d[k] + v

    def ipset(self, V, I, J):
        I, J = _aslist(I), _aslist(J)
        V = _aslist(V, len(I))
        if len(V) == 1 and len(I) > 1:
            V = V * len(I)
        for v, i, j in zip(V, I, J):
            k = (int(i), int(j))
            if k not in self.d:
                raise ValueError('ipset: position not in sparsity pattern')
            self.d[k] = v

    def dense(self):
        return [[self.d.get((i, j), 0.0) for j in range(self.size[1])] for i in range(self.size[0])]


def sparse(x, tc='d'):
    """drop explicit zeros (forks on symbolic entries)"""
    if isinstance(x, spmatrix):
        r = spmatrix([], [], [], x.size)
        r.d = {k: v for k, v in x.d.items() if not (v == 0)}
        return r
    if isinstance(x, list):       # block matrix [[A, B], [C, D]] given as list of column lists
        cols = x
        widths = [c[0].size[1] for c in cols]
        heights = [b.size[0] for b in cols[0]]
        r = spmatrix([], [], [], (sum(heights), sum(widths)))
        jo = 0
        for c, w in zip(cols, widths):
            io = 0
            for b in c:
                for (i, j), v in b.d.items():
                    r.d[(io + i, jo + j)] = v
                io += b.size[0]
            jo += w
        return r
    raise TypeError(type(x))


class matrix(list):
    """dense column vector / column-major dense copy of a sparse matrix"""

    def __init__(self, x=(), size=None, tc='d'):
        if isinstance(x, spmatrix):
            super().__init__([x.d.get((i, j), 0.0) for j in range(x.size[1]) for i in range(x.size[0])])
            self.size = x.size
        else:
            super().__init__(_aslist(x))
            self.size = size if size is not None else (len(self), 1)


def spdiag(l):
    l = _aslist(l)
    return spmatrix(l, range(len(l)), range(len(l)), (len(l), len(l)))


def selftest(rng_seed=0, rounds=30):
    """differential test against the real kvxopt on random concrete data; returns #disagreements"""
    import random
    import kvxopt
    rng = random.Random(rng_seed)
    bad = 0
    for _ in range(rounds):
        n, m = rng.randint(1, 4), rng.randint(1, 4)
        k = rng.randint(0, 7)
        I = [rng.randrange(n) for _ in range(k)]
        J = [rng.randrange(m) for _ in range(k)]
        V = [float(rng.choice([0, 0, 1, 2, -1.5])) for _ in range(k)]
        a, A = spmatrix(V, I, J, (n, m)), kvxopt.spmatrix(V, I, J, (n, m), 'd')
        if list(a.I) != list(A.I) or list(a.J) != list(A.J) or list(a.V) != list(A.V):
            bad += 1
        s, S = sparse(a), kvxopt.sparse(A)
        if list(s.I) != list(S.I) or list(s.J) != list(S.J) or list(s.V) != list(S.V):
            bad += 1
        if list(matrix(a)) != list(kvxopt.matrix(A)):
            bad += 1
        I2 = [rng.randrange(m) for _ in range(k)]
        J2 = [rng.randrange(n) for _ in range(k)]
        b, B = spmatrix(V, I2, J2, (m, n)), kvxopt.spmatrix(V, I2, J2, (m, n), 'd')
        p, P = a * b, A * B
        P2 = kvxopt.sparse(P); p2 = sparse(p)
        if list(p2.I) != list(P2.I) or list(p2.J) != list(P2.J) or list(p2.V) != list(P2.V):
            bad += 1
        i = rng.randrange(n)
        r, Rr = a[i, :], A[i, :]
        if list(r.J) != list(Rr.J) or list(r.V) != list(Rr.V) or r.size != Rr.size:
            bad += 1
        try:
            a[n, :]
            bad += 1
        except IndexError:
            pass
        q, Q = a + a, A + A
        if list(q.I) != list(Q.I) or list(q.V) != list(Q.V):
            bad += 1
    return bad
