"""
E1 eqsmt: symbolic evaluation of generated pycode functions and declared equation
strings into z3 Real terms; equivalence query per equation.
"""
import ast, math, itertools, time, sys
from fractions import Fraction
import z3

R = z3.RealSort()
UF = {n: z3.Function(n, R, R) for n in ('sin', 'cos', 'tan', 'exp', 'log', 'atan', 'sqrt_')}
UF2 = {n: z3.Function(n, R, R, R) for n in ('atan2', 'pow')}
PI = z3.Real('pi')
RECIP = z3.Function('recip', R, R)


class Ctx:
    """collects side conditions (definedness, sqrt/abs definitions, UF instances)"""
    def __init__(self):
        self.defs = []       # facts true by definition of fresh symbols
        self.assume = []     # definedness assumptions (denominators != 0, radicands >= 0)
        self.apps = {n: [] for n in list(UF) + list(UF2)}
        self.k = 0

    def fresh(self, p):
        self.k += 1
        return z3.Real(f'__{p}{self.k}')


CTX = Ctx()
DIVFREE = [False]


def rv(x):
    if isinstance(x, bool):
        return z3.RealVal(1 if x else 0)
    if isinstance(x, int):
        return z3.RealVal(x)
    if isinstance(x, float):
        if math.isnan(x):
            return z3.Real('__nan')
        f = Fraction(x)
        return z3.RealVal(f'{f.numerator}/{f.denominator}')
    raise TypeError(x)


class B:
    """symbolic boolean"""
    def __init__(self, e):
        self.e = e

    def __and__(self, o): return B(z3.And(self.e, tob(o).e))
    def __or__(self, o): return B(z3.Or(self.e, tob(o).e))
    def __invert__(self): return B(z3.Not(self.e))
    def asnum(self): return S(z3.If(self.e, z3.RealVal(1), z3.RealVal(0)))
    # arithmetic on booleans -> 0/1
    def __mul__(self, o): return self.asnum() * o
    __rmul__ = __mul__
    def __add__(self, o): return self.asnum() + o
    __radd__ = __add__
    def __sub__(self, o): return self.asnum() - o
    def __rsub__(self, o): return tos(o) - self.asnum()


def tob(x):
    if isinstance(x, B): return x
    if isinstance(x, bool): return B(z3.BoolVal(x))
    if isinstance(x, S): return B(x.re != 0) if x.im is None else B(z3.Or(x.re != 0, x.im != 0))
    if isinstance(x, (int, float)): return B(z3.BoolVal(bool(x)))
    raise TypeError(x)


class S:
    """symbolic number: real (im None) or complex"""
    def __init__(self, re, im=None):
        self.re, self.im = re, im

    @property
    def iscx(self): return self.im is not None
    def _im(self): return self.im if self.im is not None else z3.RealVal(0)

    def __add__(self, o):
        o = tos(o)
        if not self.iscx and not o.iscx: return S(self.re + o.re)
        return S(self.re + o.re, self._im() + o._im())
    __radd__ = __add__
    def __neg__(self): return S(-self.re, None if self.im is None else -self.im)
    def __pos__(self): return self
    def __sub__(self, o): return self + (-tos(o))
    def __rsub__(self, o): return tos(o) + (-self)

    def __mul__(self, o):
        o = tos(o)
        if not self.iscx and not o.iscx: return S(self.re * o.re)
        a, b, c, d = self.re, self._im(), o.re, o._im()
        return S(a * c - b * d, a * d + b * c)
    __rmul__ = __mul__

    def recip(self):
        if not self.iscx:
            d = z3.simplify(self.re)
            if z3.is_rational_value(d) and d.as_fraction() != 0:
                return S(z3.RealVal(1) / d)
            CTX.assume.append(self.re != 0)
            if DIVFREE[0]:
                q = RECIP(d)
                CTX.defs.append(d * q == 1)
                return S(q)
            return S(1 / self.re)
        den = self.re * self.re + self.im * self.im
        CTX.assume.append(den != 0)
        if DIVFREE[0]:
            den = z3.simplify(den)
            q = RECIP(den)
            CTX.defs.append(den * q == 1)
            return S(self.re * q, -self.im * q)
        return S(self.re / den, -self.im / den)

    def __truediv__(self, o):
        o = tos(o)
        of = getattr(o, '_absof', None)
        if DEEP[0] and of is not None and self.iscx and z3.eq(of[0], self.re) and z3.eq(of[1], self.im):
            return unit_phasor(self, o)
        return self * o.recip()
    def __rtruediv__(self, o): return tos(o) * self.recip()

    def __pow__(self, p):
        if isinstance(p, S):
            pv = z3.simplify(p.re)
            if p.im is None and z3.is_rational_value(pv):
                p = float(pv.numerator_as_long()) / float(pv.denominator_as_long())
            else:
                return upow(self, p)
        if isinstance(p, float) and p.is_integer(): p = int(p)
        if isinstance(p, int):
            if p == 0: return S(z3.RealVal(1))
            if p < 0: return (self ** (-p)).recip()
            out = self
            for _ in range(p - 1): out = out * self
            return out
        if p == 0.5: return sqrt(self)
        if p == -0.5: return sqrt(self).recip()
        if p == 1.5: return sqrt(self) * self
        return upow(self, tos(p))

    def __rpow__(self, b): return upow(tos(b), self)

    def _cmp(self, o, op):
        o = tos(o)
        assert not self.iscx and not o.iscx
        return B(op(self.re, o.re))
    def __lt__(self, o): return self._cmp(o, lambda a, b: a < b)
    def __le__(self, o): return self._cmp(o, lambda a, b: a <= b)
    def __gt__(self, o): return self._cmp(o, lambda a, b: a > b)
    def __ge__(self, o): return self._cmp(o, lambda a, b: a >= b)
    def __abs__(self): return fabs(self)


def tos(x):
    if isinstance(x, S): return x
    if isinstance(x, B): return x.asnum()
    if isinstance(x, complex): return S(rv(x.real), rv(x.imag))
    return S(rv(x))


def _neg_form(t):
    """if simplify(t) is syntactically (-c)*rest with c > 0 return the positive counterpart, else None"""
    t = z3.simplify(t)
    if z3.is_rational_value(t) and t.as_fraction() < 0:
        return z3.simplify(-t)
    if z3.is_app(t) and t.decl().kind() == z3.Z3_OP_MUL and z3.is_rational_value(t.arg(0)) \
            and t.arg(0).as_fraction() < 0:
        return z3.simplify(-t)
    return None


def uf1(name, x):
    x = tos(x)
    if x.iscx:
        if z3.eq(z3.simplify(x.im), z3.RealVal(0)):
            x = S(x.re)
        elif name == 'log':
            # principal complex logarithm
            if getattr(x, '_unit', False):
                t = atan2(S(x.im), S(x.re))
                CTX.defs.append(z3.And(UF['cos'](t.re) == x.re, UF['sin'](t.re) == x.im))    # (c, s) on the unit circle: cos/sin of its angle
                return S(z3.RealVal(0), t.re)
            return S(uf1('log', fabs(x)).re, atan2(S(x.im), S(x.re)).re)
        else:
            raise NotImplementedError(f'{name} of a complex argument')
    if name in ('sin', 'cos', 'tan'):
        p = _neg_form(x.re)
        if p is not None:                       # odd / even symmetry, applied syntactically
            CTX.apps[name].append(p)
            return S(UF[name](p)) if name == 'cos' else S(-UF[name](p))
    CTX.apps[name].append(x.re)
    return S(UF[name](x.re))


def upow(b, p):
    assert not b.iscx and not p.iscx
    if not z3.is_rational_value(z3.simplify(p.re)):
        CTX.assume.append(b.re > 0)      # real power with a symbolic exponent: defined for a positive base
    CTX.apps['pow'].append((b.re, p.re))
    return S(UF2['pow'](b.re, p.re))


def sqrt(x):
    x = tos(x)
    if x.iscx:
        im = z3.simplify(x.im)
        if z3.eq(im, z3.RealVal(0)):
            x = S(x.re)
        else:
            # principal complex square root: w*w = z, re(w) >= 0 (im(w) >= 0 when re(w) = 0)
            wr, wi = CTX.fresh('sqr'), CTX.fresh('sqi')
            CTX.defs.append(z3.And(wr * wr - wi * wi == x.re, 2 * wr * wi == x.im, wr >= 0,
                                   z3.Implies(wr == 0, wi >= 0)))
            return S(wr, wi)
    # sqrt as UF with defining axiom on instances: s>=0, s*s==x (assuming x>=0)
    CTX.apps['sqrt_'].append(x.re)
    s = UF['sqrt_'](x.re)
    CTX.assume.append(x.re >= 0)
    CTX.defs.append(z3.And(s >= 0, s * s == x.re))
    return S(s)


def unit_phasor(z, n):
    """z / |z| as a pair (c, s) with n*c = re z, n*s = im z, c^2 + s^2 = 1 (a consequence for n != 0, which division assumes)"""
    CTX.assume.append(n.re != 0)
    c_, s_ = CTX.fresh('uc'), CTX.fresh('us')
    CTX.defs.append(z3.And(n.re * c_ == z.re, n.re * s_ == z.im, c_ * c_ + s_ * s_ == 1,
                           z.re * s_ - z.im * c_ == 0, z.re * c_ + z.im * s_ == n.re))      # the last two follow from the first three
    u = S(c_, s_)
    u._unit = True
    return u


def fabs(x):
    x = tos(x)
    if x.iscx:
        if getattr(x, '_unit', False):
            return S(z3.RealVal(1))
        out = sqrt(S(x.re * x.re + x.im * x.im))
        out._absof = (x.re, x.im)
        return out
    return S(z3.If(x.re >= 0, x.re, -x.re))


def exp(x):
    x = tos(x)
    if not x.iscx: return uf1('exp', x)
    m = uf1('exp', S(x.re)) if not z3.eq(z3.simplify(x.re), z3.RealVal(0)) else S(z3.RealVal(1))
    return m * S(uf1('cos', S(x.im)).re, uf1('sin', S(x.im)).re)


def re_(x): return S(tos(x).re)
def im_(x): return S(tos(x)._im())
def conj(x):
    x = tos(x)
    return S(x.re, None if x.im is None else -x.im)


def atan2(y, x):
    y, x = tos(y), tos(x)
    CTX.apps['atan2'].append((y.re, x.re))
    return S(UF2['atan2'](y.re, x.re))


def angle(z):
    z = tos(z)
    return atan2(S(z._im()), S(z.re))


def select(conds, vals, default=None):
    out = tos(default) if default is not None else S(z3.Real('__nan'))
    for c, v in reversed(list(zip(conds, vals))):
        v = tos(v); c = tob(c)
        assert not v.iscx
        out = S(z3.If(c.e, v.re, out.re))
    return out


def Piecewise(*pairs):
    conds = [tob(c) for _, c in pairs]
    vals = [v for v, _ in pairs]
    return select(conds, vals)


def safe_div(a, b):
    a, b = tos(a), tos(b)
    return S(z3.If(b.re == 0, z3.RealVal(0), a.re / b.re))


class _LA:
    @staticmethod
    def reduce(seq):
        out = tob(seq[0])
        for s in seq[1:]: out = out & tob(s)
        return out


NS_COMMON = dict(
    sin=lambda x: uf1('sin', x), cos=lambda x: uf1('cos', x), tan=lambda x: uf1('tan', x),
    exp=exp, log=lambda x: uf1('log', x), sqrt=sqrt, abs=fabs, Abs=fabs,
    atan=lambda x: uf1('atan', x), arctan=lambda x: uf1('atan', x), atan2=atan2, arctan2=atan2,
    pi=S(PI), nan=S(z3.Real('__nan')),
    safe_div=safe_div,
)
NS_GEN = dict(NS_COMMON,
    select=select, real=re_, imag=im_, conj=conj, angle=angle,
    radians=lambda x: tos(x) * S(PI) / 180,
    less=lambda a, b: tos(a) < b, less_equal=lambda a, b: tos(a) <= b,
    greater=lambda a, b: tos(a) > b, greater_equal=lambda a, b: tos(a) >= b,
    equal=lambda a, b: B(tos(a).re == tos(b).re),
    logical_and=_LA, logical_or=None, logical_not=lambda a: ~tob(a),
    array=lambda x: x, __builtins__={},
)
NS_DECL = dict(NS_COMMON,
    Piecewise=Piecewise, Indicator=lambda b: tob(b).asnum() if not isinstance(b, (S,)) else b,
    Le=lambda a, b: tos(a) <= b, Lt=lambda a, b: tos(a) < b,
    Ge=lambda a, b: tos(a) >= b, Gt=lambda a, b: tos(a) > b,
    re=re_, im=im_, conj=conj, arg=angle,
    radians=lambda x: tos(x) * S(PI) / 180, rad=lambda x: tos(x) * S(PI) / 180,
    I=S(z3.RealVal(0), z3.RealVal(1)), E=None, __builtins__={},
)


def collect_apps(terms):
    out = {n: [] for n in list(UF) + list(UF2)}
    seen = set()
    def walk(t):
        if t.get_id() in seen: return
        seen.add(t.get_id())
        if z3.is_app(t):
            if t.decl().kind() == z3.Z3_OP_UNINTERPRETED and t.num_args() > 0:
                n = t.decl().name()
                if n in out:
                    out[n].append(t.arg(0) if t.num_args() == 1 else (t.arg(0), t.arg(1)))
            for c in t.children(): walk(c)
    for t in terms: walk(t)
    return out


def trig_axioms(terms=None):
    ax = []
    apps = collect_apps(terms) if terms is not None else CTX.apps
    sa, ca = apps['sin'], apps['cos']
    def uniq(l):
        out = []
        for e in l:
            if not any(z3.eq(e, o) for o in out): out.append(e)
        return out
    sa, ca = uniq(sa), uniq(ca)
    for a, b in itertools.combinations(sa, 2):
        ax.append(z3.Implies(a == -b, UF['sin'](a) == -UF['sin'](b)))
    for a, b in itertools.combinations(ca, 2):
        ax.append(z3.Implies(a == -b, UF['cos'](a) == UF['cos'](b)))
    allt = uniq(sa + ca)
    for a in allt:
        ax.append(UF['sin'](a) * UF['sin'](a) + UF['cos'](a) * UF['cos'](a) == 1)
    # shifts by multiples of pi/6 between applications (true identities, instantiated pairwise)
    import math
    r3 = z3.Real('__sqrt3'); ax.append(z3.And(r3 > 0, r3 * r3 == 3))
    table = {0: (1, 0), 1: (r3 / 2, z3.RealVal(1) / 2), 2: (z3.RealVal(1) / 2, r3 / 2), 3: (0, 1)}   # cos, sin of k*pi/6, k=0..3
    def cs(k):
        k = k % 12
        q, r = divmod(k, 3)          # k*pi/6 = q*pi/2 + r*pi/6
        c, s_ = table[r]
        for _ in range(q): c, s_ = -s_, c
        return c, s_
    for a, b in itertools.permutations(allt, 2):
        d = z3.simplify(a - b)
        # is d a rational multiple of pi (d == q*pi)?  test structurally: d/PI simplifies to a rational
        if z3.is_app(d) and d.decl().kind() == z3.Z3_OP_MUL and d.num_args() == 2 and z3.is_rational_value(d.arg(0)) and z3.eq(d.arg(1), PI):
            q6 = d.arg(0).as_fraction() * 6
            if q6.denominator == 1:
                c, s_ = cs(int(q6))
                # a = b + k*pi/6
                ax.append(UF['cos'](a) == UF['cos'](b) * c - UF['sin'](b) * s_)
                ax.append(UF['sin'](a) == UF['sin'](b) * c + UF['cos'](b) * s_)
    pw = []
    for e in apps['pow']:
        if not any(z3.eq(e[0], o[0]) and z3.eq(e[1], o[1]) for o in pw): pw.append(e)
    for (b1, p1), (b2, p2) in itertools.permutations(pw, 2):
        if z3.eq(b1, b2) and z3.eq(z3.simplify(p1 - p2), z3.RealVal(1)):
            ax.append(z3.Implies(b1 != 0, UF2['pow'](b1, p1) == UF2['pow'](b2, p2) * b1))
    for (b1, p1), (b2, p2) in itertools.combinations(pw, 2):
        if z3.eq(b1, b2) and z3.eq(z3.simplify(p1 + p2), z3.RealVal(0)):
            ax.append(z3.Implies(b1 != 0, UF2['pow'](b1, p1) * UF2['pow'](b2, p2) == 1))
    for a in uniq(apps['sqrt_']):
        ax.append(z3.Implies(a >= 0, z3.And(UF['sqrt_'](a) >= 0, UF['sqrt_'](a) * UF['sqrt_'](a) == a)))
    return ax


DEEP = [False]


def _pi_multiple(t):
    """Fraction q when t is syntactically q*pi, else None"""
    if z3.eq(t, PI):
        return Fraction(1)
    if z3.is_app(t) and t.decl().kind() == z3.Z3_OP_MUL and t.num_args() == 2 and z3.is_rational_value(t.arg(0)) and z3.eq(t.arg(1), PI):
        return t.arg(0).as_fraction()
    return None


def deep_axioms(terms, max_rounds=4):
    """
    Further true identities, instantiated on the applications that occur (opt-in: DEEP[0]):
    addition formulas on arguments that are sums, parity on negated arguments, exact values at multiples of pi/6,
    sin/cos of atan2(y, x) as y/r, x/r with r = sqrt(x^2 + y^2), exp(log w) = w, exp(-a) exp(a) = 1, exp of a sum.
    Every formula added is valid over the reals (guards where a function is undefined).
    """
    ax, done = [], set()
    r3 = z3.Real('__sqrt3')
    ax.append(z3.And(r3 > 0, r3 * r3 == 3))
    table = {0: (z3.RealVal(1), z3.RealVal(0)), 1: (r3 / 2, z3.RealVal(1) / 2), 2: (z3.RealVal(1) / 2, r3 / 2), 3: (z3.RealVal(0), z3.RealVal(1))}

    def cs(k):
        k = k % 12
        q, r = divmod(k, 3)
        c_, s_ = table[r]
        for _ in range(q):
            c_, s_ = -s_, c_
        return c_, s_

    def trig(arg):
        if arg.get_id() in done:
            return
        done.add(arg.get_id())
        sn, cn = UF['sin'](arg), UF['cos'](arg)
        a = z3.simplify(arg)
        if not z3.eq(a, arg):
            ax.append(z3.And(sn == UF['sin'](a), cn == UF['cos'](a)))
            trig(a)
            return
        ax.append(sn * sn + cn * cn == 1)
        q = _pi_multiple(a)
        if q is not None:
            if (q * 6).denominator == 1:
                c_, s_ = cs(int(q * 6))
                ax.append(z3.And(cn == c_, sn == s_))
            return
        if z3.is_app(a) and a.decl().kind() == z3.Z3_OP_ADD and a.num_args() >= 2:
            p = a.arg(0)
            rest = a.arg(1) if a.num_args() == 2 else z3.Sum(*[a.arg(i) for i in range(1, a.num_args())])
            sp, cp, sr, cr = UF['sin'](p), UF['cos'](p), UF['sin'](rest), UF['cos'](rest)
            ax.append(z3.And(sn == sp * cr + cp * sr, cn == cp * cr - sp * sr))
            trig(p)
            trig(rest)
            return
        if z3.is_app(a) and a.decl().kind() == z3.Z3_OP_MUL and a.num_args() == 2 and z3.is_rational_value(a.arg(0)) \
                and a.arg(0).as_fraction() == -1:
            qq = a.arg(1)
            ax.append(z3.And(sn == -UF['sin'](qq), cn == UF['cos'](qq)))
            trig(qq)
            return
        if z3.is_app(a) and a.decl().kind() == z3.Z3_OP_UNINTERPRETED and a.decl().name() == 'atan2':
            y, x = a.arg(0), a.arg(1)
            rr = UF['sqrt_'](x * x + y * y)
            ax.append(z3.And(rr >= 0, rr * rr == x * x + y * y))
            ax.append(z3.Implies(rr != 0, z3.And(rr * cn == x, rr * sn == y)))

    def expo(arg):
        key = ('e', arg.get_id())
        if key in done:
            return
        done.add(key)
        ex = UF['exp'](arg)
        ax.append(ex > 0)
        a = z3.simplify(arg)
        if not z3.eq(a, arg):
            ax.append(ex == UF['exp'](a))
            expo(a)
            return
        if z3.is_rational_value(a) and a.as_fraction() == 0:
            ax.append(ex == 1)
            return
        if z3.is_app(a) and a.decl().kind() == z3.Z3_OP_UNINTERPRETED and a.decl().name() == 'log':
            ax.append(z3.Implies(a.arg(0) > 0, ex == a.arg(0)))
            return
        if z3.is_app(a) and a.decl().kind() == z3.Z3_OP_MUL and a.num_args() == 2 and z3.is_rational_value(a.arg(0)) \
                and a.arg(0).as_fraction() == -1:
            ax.append(ex * UF['exp'](a.arg(1)) == 1)
            expo(a.arg(1))
            return
        if z3.is_app(a) and a.decl().kind() == z3.Z3_OP_ADD and a.num_args() >= 2:
            p = a.arg(0)
            rest = a.arg(1) if a.num_args() == 2 else z3.Sum(*[a.arg(i) for i in range(1, a.num_args())])
            ax.append(ex == UF['exp'](p) * UF['exp'](rest))
            expo(p)
            expo(rest)

    ax.append(UF['exp'](z3.RealVal(0)) == 1)
    ax.append(UF['log'](z3.RealVal(1)) == 0)
    pending = list(terms)
    for _ in range(max_rounds):
        apps = collect_apps(pending)
        n0 = len(ax)
        for a in apps['sin'] + apps['cos']:
            trig(a)
        for a in apps['exp']:
            expo(a)
        for w in apps['log']:
            lw = UF['log'](w)
            key = ('l', lw.get_id())
            if key not in done:
                done.add(key)
                ax.append(z3.Implies(w > 0, UF['exp'](lw) == w))       # links exp(s) to w for any symbol s equated to log(w)
        for y, x in apps['atan2']:
            trig(UF2['atan2'](y, x))
        if len(ax) == n0:
            break
        pending = ax[n0:]
    return ax


def equiv(a, b, timeout_ms=10000):
    """return ('unsat'|'sat'|'unknown', model, secs) for a != b under CTX side conditions"""
    a, b = tos(a), tos(b)
    s = z3.Solver()
    s.set('timeout', timeout_ms)
    neq = a.re != b.re
    if a.iscx or b.iscx:
        neq = z3.Or(neq, a._im() != b._im())
    terms = [a.re, b.re, a._im(), b._im()] + CTX.defs + CTX.assume
    for f in CTX.defs + CTX.assume + trig_axioms(terms):
        s.add(f)
    s.add(neq)
    t = time.time()
    r = s.check()
    return str(r), (s.model() if str(r) == 'sat' else None), time.time() - t


# ---------------- AST interpreter with exact literals -----------------
from decimal import Decimal


def lit(node, src):
    v = node.value
    if isinstance(v, bool): return B(z3.BoolVal(v))
    if isinstance(v, int): return S(z3.RealVal(v))
    if isinstance(v, float):
        txt = ast.get_source_segment(src, node)
        try:
            f = Fraction(Decimal(txt))
        except Exception:
            f = Fraction(v)
        return S(z3.RealVal(f'{f.numerator}/{f.denominator}'))
    if isinstance(v, complex):
        txt = ast.get_source_segment(src, node).rstrip('jJ')
        f = Fraction(Decimal(txt))
        return S(z3.RealVal(0), z3.RealVal(f'{f.numerator}/{f.denominator}'))
    if v is None: return None
    raise TypeError(v)


def ev(node, names, ns, src):
    E = lambda n: ev(n, names, ns, src)
    if isinstance(node, ast.Expression): return E(node.body)
    if isinstance(node, ast.Constant): return lit(node, src)
    if isinstance(node, ast.Name):
        if node.id in names: return names[node.id]        # model identifiers shadow functions
        if node.id in ns: return ns[node.id]
        if node.id in ('True', 'False'): return B(z3.BoolVal(node.id == 'True'))
        return names[node.id]
    if isinstance(node, ast.BinOp):
        a, b = E(node.left), E(node.right)
        op = type(node.op)
        if op is ast.Add: return a + b
        if op is ast.Sub: return a - b
        if op is ast.Mult: return a * b
        if op is ast.Div: return tos(a) / b
        if op is ast.Pow: return tos(a) ** b
        if op is ast.BitAnd: return tob(a) & b
        if op is ast.BitOr: return tob(a) | b
        raise NotImplementedError(op)
    if isinstance(node, ast.UnaryOp):
        a = E(node.operand)
        op = type(node.op)
        if op is ast.USub: return -tos(a)
        if op is ast.UAdd: return a
        if op is ast.Invert or op is ast.Not: return ~tob(a)
        raise NotImplementedError(op)
    if isinstance(node, ast.Compare):
        assert len(node.ops) == 1
        a, b = tos(E(node.left)), tos(E(node.comparators[0]))
        op = type(node.ops[0])
        if op is ast.Lt: return a < b
        if op is ast.LtE: return a <= b
        if op is ast.Gt: return a > b
        if op is ast.GtE: return a >= b
        if op is ast.Eq: return B(a.re == b.re)
        if op is ast.NotEq: return B(a.re != b.re)
        raise NotImplementedError(op)
    if isinstance(node, (ast.Tuple, ast.List)):
        return [E(e) for e in node.elts]
    if isinstance(node, ast.Attribute):
        return getattr(E(node.value), node.attr)
    if isinstance(node, ast.Call):
        f = E(node.func)
        args = [E(a) for a in node.args]
        kw = {k.arg: E(k.value) for k in node.keywords if k.arg != 'evaluate'}
        return f(*args, **kw)
    raise NotImplementedError(ast.dump(node)[:80])


def ev_str(s, names, ns):
    s = str(s).strip()
    s = ' '.join(s.split())
    return ev(ast.parse(s, mode='eval'), names, ns, s)


# ---------------- structural differentiation of z3 real terms -----------------
def diff(e, x, cache=None):
    """d e / d x for z3 Real term e, x a z3 Real constant"""
    if cache is None: cache = {}
    key = e.get_id()
    if key in cache: return cache[key]
    Z, O = z3.RealVal(0), z3.RealVal(1)
    D = lambda t: diff(t, x, cache)
    k = e.decl().kind()
    ch = e.children()
    if z3.is_rational_value(e) or z3.is_algebraic_value(e):
        r = Z
    elif z3.is_const(e):
        r = O if z3.eq(e, x) else Z
    elif k == z3.Z3_OP_ADD:
        r = z3.Sum([D(c) for c in ch])
    elif k == z3.Z3_OP_SUB:
        r = D(ch[0]) - z3.Sum([D(c) for c in ch[1:]])
    elif k == z3.Z3_OP_UMINUS:
        r = -D(ch[0])
    elif k == z3.Z3_OP_MUL:
        terms = []
        for i, c in enumerate(ch):
            dc = D(c)
            if z3.eq(z3.simplify(dc), Z): continue
            rest = [o for j, o in enumerate(ch) if j != i]
            terms.append(z3.Product([dc] + rest) if rest else dc)
        r = z3.Sum(terms) if terms else Z
    elif k == z3.Z3_OP_DIV:
        a, b = ch
        da, db = D(a), D(b)
        if z3.eq(z3.simplify(db), Z):
            r = da / b
        else:
            r = (da * b - a * db) / (b * b)
    elif k == z3.Z3_OP_ITE:
        r = z3.If(ch[0], D(ch[1]), D(ch[2]))
    elif k == z3.Z3_OP_UNINTERPRETED:
        n = e.decl().name()
        dch = [D(c) for c in ch]
        if all(z3.eq(z3.simplify(d_), Z) for d_ in dch):
            cache[key] = Z
            return Z
        if n == 'sin': r = UF['cos'](ch[0]) * D(ch[0])
        elif n == 'cos': r = -UF['sin'](ch[0]) * D(ch[0])
        elif n == 'tan': r = (1 + e * e) * D(ch[0])
        elif n == 'exp': r = e * D(ch[0])
        elif n == 'log': r = D(ch[0]) / ch[0]
        elif n == 'atan': r = D(ch[0]) / (1 + ch[0] * ch[0])
        elif n == 'sqrt_': r = D(ch[0]) / (2 * e)
        elif n == 'atan2':
            yy, xx = ch
            r = (xx * D(yy) - yy * D(xx)) / (xx * xx + yy * yy)
        elif n == 'pow':
            b, p = ch
            # only constant exponent supported
            assert z3.eq(z3.simplify(D(p)), Z), 'pow with variable exponent'
            r = p * UF2['pow'](b, p - 1) * D(b)
            CTX.apps['pow'].append((b, p - 1))
        else:
            raise NotImplementedError(n)
    else:
        raise NotImplementedError(str(e.decl()))
    cache[key] = r
    return r


# ======================================================================================
# library part (beyond the prototype): generated-module front end, names, numeric replay
# ======================================================================================
import collections
import cmath
import os


class Names(dict):
    """lazy symbol table: every unknown identifier becomes a fresh Real (or a complex pair)"""

    def __init__(self, complex_names=(), prefix='', known=()):
        super().__init__()
        self.cx = set(complex_names)
        self.prefix = prefix
        self.known = set(known)

    def __contains__(self, k):
        return dict.__contains__(self, k) or k in self.known

    def __missing__(self, k):
        if k not in self.known and (k in NS_DECL or k in NS_GEN):
            raise KeyError(k)
        if k in self.cx:
            v = S(z3.Real(self.prefix + k + '__re'), z3.Real(self.prefix + k + '__im'))
        elif k == '__zeros': v = S(z3.RealVal(0))
        elif k == '__ones': v = S(z3.RealVal(1))
        elif k == '__falses': v = B(z3.BoolVal(False))
        elif k == '__trues': v = B(z3.BoolVal(True))
        else:
            v = S(z3.Real(self.prefix + k))
        self[k] = v
        return v


class ArityError(Exception):
    pass


class GenModule:
    """AST view of one generated pycode/<Model>.py of the current tree"""

    def __init__(self, path):
        self.path = path
        self.src = open(path).read()
        tree = ast.parse(self.src)
        self.funcs, self.consts = {}, {}
        for node in tree.body:
            if isinstance(node, ast.FunctionDef):
                self.funcs[node.name] = node
            elif isinstance(node, ast.Assign) and isinstance(node.targets[0], ast.Name):
                try:
                    self.consts[node.targets[0].id] = eval(
                        compile(ast.Expression(node.value), '<c>', 'eval'),
                        {'OrderedDict': collections.OrderedDict, '__builtins__': {}})
                except Exception:
                    pass

    def argnames(self, fname):
        return [a.arg for a in self.funcs[fname].args.args]

    def call(self, fname, names, arglist=None, ns=None):
        """
        Symbolic value(s) returned by generated function `fname`.  Parameters are bound
        POSITIONALLY to `names[arglist[k]]` -- the model of
        ``func(*[self._input[arg] for arg in calls.<x>_args])`` in Model.refresh_inputs_arg;
        with arglist=None the function's own parameter names are used.
        """
        fnode = self.funcs[fname]
        params = [a.arg for a in fnode.args.args]
        if arglist is None:
            arglist = params
        if len(arglist) != len(params):
            raise ArityError(f'{fname}: {len(params)} parameters but {len(arglist)} arguments bound')
        local = {p: names[a] for p, a in zip(params, arglist)}
        body = [b for b in fnode.body if not (isinstance(b, ast.Expr) and isinstance(b.value, ast.Constant))]
        if len(body) != 1 or not isinstance(body[0], ast.Return):
            raise NotImplementedError(f'{fname}: body is not a single return')
        return ev(body[0].value, local, ns or NS_GEN, self.src)

    def pyfunc(self, fname):
        """the real, executable generated function (for replay)"""
        if not hasattr(self, '_mod'):
            import importlib.util
            spec = importlib.util.spec_from_file_location('genmod_' + os.path.basename(self.path)[:-3], self.path)
            self._mod = importlib.util.module_from_spec(spec)
            spec.loader.exec_module(self._mod)
        return getattr(self._mod, fname)


# ---- numeric (float/complex) evaluation of declared strings: the replay oracle ---------
def _n_piecewise(*pairs):
    for v, c in pairs:
        if c is True or (not isinstance(c, bool) and bool(c)) or c is True:
            return v
        if isinstance(c, bool) and c:
            return v
    return float('nan')


def _n_select(conds, vals, default=float('nan')):
    for c, v in zip(conds, vals):
        if bool(c):
            return v
    return default


def _cx(f_real, f_cx):
    def g(x):
        if isinstance(x, complex):
            return f_cx(x)
        return f_real(x)
    return g


class _NLA:
    @staticmethod
    def reduce(seq):
        return all(bool(s) for s in seq)


NS_NUM = dict(
    sin=_cx(math.sin, cmath.sin), cos=_cx(math.cos, cmath.cos), tan=_cx(math.tan, cmath.tan),
    exp=_cx(math.exp, cmath.exp), log=_cx(math.log, cmath.log), sqrt=_cx(math.sqrt, cmath.sqrt),
    abs=abs, Abs=abs, atan=math.atan, arctan=math.atan, atan2=math.atan2, arctan2=math.atan2,
    pi=math.pi, nan=float('nan'),
    safe_div=lambda a, b: 0.0 if b == 0 else a / b,
    Piecewise=_n_piecewise, Indicator=lambda b: 1.0 if bool(b) else 0.0,
    Le=lambda a, b: a <= b, Lt=lambda a, b: a < b, Ge=lambda a, b: a >= b, Gt=lambda a, b: a > b,
    re=lambda z: complex(z).real, im=lambda z: complex(z).imag, conj=lambda z: complex(z).conjugate(),
    arg=lambda z: cmath.phase(complex(z)), real=lambda z: complex(z).real, imag=lambda z: complex(z).imag,
    angle=lambda z: cmath.phase(complex(z)),
    radians=math.radians, rad=math.radians, I=1j,
    select=_n_select, less=lambda a, b: a < b, less_equal=lambda a, b: a <= b,
    greater=lambda a, b: a > b, greater_equal=lambda a, b: a >= b, equal=lambda a, b: a == b,
    logical_and=_NLA, logical_not=lambda a: not bool(a), array=lambda x: x,
)


def nev(node, env):
    """numeric evaluation of an expression AST with python floats/complex"""
    E = lambda n: nev(n, env)
    if isinstance(node, ast.Expression): return E(node.body)
    if isinstance(node, ast.Constant): return node.value
    if isinstance(node, ast.Name):
        if node.id in env: return env[node.id]
        if node.id in NS_NUM: return NS_NUM[node.id]
        if node.id == '__zeros': return 0.0
        if node.id == '__ones': return 1.0
        if node.id == '__falses': return False
        if node.id == '__trues': return True
        raise KeyError(node.id)
    if isinstance(node, ast.BinOp):
        a, b = E(node.left), E(node.right)
        op = type(node.op)
        if op is ast.Add: return a + b
        if op is ast.Sub: return a - b
        if op is ast.Mult: return a * b
        if op is ast.Div: return a / b
        if op is ast.Pow: return a ** b
        if op is ast.BitAnd: return bool(a) and bool(b)
        if op is ast.BitOr: return bool(a) or bool(b)
        raise NotImplementedError(op)
    if isinstance(node, ast.UnaryOp):
        a = E(node.operand)
        op = type(node.op)
        if op is ast.USub: return -a
        if op is ast.UAdd: return a
        return not bool(a)
    if isinstance(node, ast.Compare):
        a, b = E(node.left), E(node.comparators[0])
        op = type(node.ops[0])
        return {ast.Lt: a < b, ast.LtE: a <= b, ast.Gt: a > b, ast.GtE: a >= b,
                ast.Eq: a == b, ast.NotEq: a != b}[op]
    if isinstance(node, (ast.Tuple, ast.List)):
        return [E(e) for e in node.elts]
    if isinstance(node, ast.Attribute):
        return getattr(E(node.value), node.attr)
    if isinstance(node, ast.Call):
        f = E(node.func)
        args = [E(a) for a in node.args]
        kw = {k.arg: E(k.value) for k in node.keywords if k.arg != 'evaluate'}
        return f(*args, **kw)
    raise NotImplementedError(ast.dump(node)[:80])


def nev_str(s, env):
    s = ' '.join(str(s).strip().split())
    return nev(ast.parse(s, mode='eval'), env)


def z3num(v):
    """float value of a z3 numeral (rational or algebraic)"""
    if v is None:
        return 0.0
    if z3.is_rational_value(v):
        f = v.as_fraction()
        return float(f)
    if z3.is_algebraic_value(v):
        return float(v.approx(20).as_fraction())
    v = z3.simplify(v)
    if z3.is_rational_value(v):
        return float(v.as_fraction())
    raise ValueError(str(v))


def model_env(model, names):
    """name -> python float/complex for every symbol in `names` (Names table) under a z3 model"""
    env = {}
    for k, v in names.items():
        if isinstance(v, S) and z3.is_const(v.re) and v.re.decl().kind() == z3.Z3_OP_UNINTERPRETED:
            re_ = z3num(model.eval(v.re, model_completion=True))
            if v.im is not None and z3.is_const(v.im) and v.im.decl().kind() == z3.Z3_OP_UNINTERPRETED:
                env[k] = complex(re_, z3num(model.eval(v.im, model_completion=True)))
            else:
                env[k] = re_
    return env


def check_neq(a, b, extra=(), timeout_ms=10000):
    """decide a != b under side conditions; returns (status, model, secs, solver)"""
    a, b = tos(a), tos(b)
    s = z3.Solver()
    s.set('timeout', timeout_ms)
    neq = a.re != b.re
    if a.iscx or b.iscx:
        neq = z3.Or(neq, a._im() != b._im())
    side = list(CTX.defs) + list(CTX.assume) + list(extra)
    terms = [a.re, b.re, a._im(), b._im()] + side
    for f in side + trig_axioms(terms) + (deep_axioms(terms) if DEEP[0] else []):
        s.add(f)
    s.add(neq)
    t = time.time()
    if DEEP[0]:
        s.set('timeout', max(1000, timeout_ms // 4))       # a short first attempt, then the arithmetic-only encoding, then the full budget
    r = s.check()
    if str(r) == 'unknown' and DEEP[0]:
        # second attempt: uninterpreted applications replaced by constants plus explicit congruence (Ackermann), which leaves
        # pure nonlinear real arithmetic.  Only `unsat` is taken from it (the abstraction can only add models).
        s2 = z3.Solver()
        s2.set('timeout', timeout_ms)
        for f in ackermannize(list(s.assertions())):
            s2.add(f)
        if str(s2.check()) == 'unsat':
            return 'unsat', None, time.time() - t
        s.set('timeout', timeout_ms)
        r = s.check()
    return str(r), (s.model() if str(r) == 'sat' else None), time.time() - t


def ackermannize(assertions):
    """replace every application of an uninterpreted function by a fresh constant (innermost first) and add the congruence
    axioms between applications of the same function"""
    cache, apps = {}, {}

    def walk(t):
        k = t.get_id()
        if k in cache:
            return cache[k]
        if z3.is_app(t) and t.num_args() > 0:
            kids = [walk(ch) for ch in t.children()]
            if t.decl().kind() == z3.Z3_OP_UNINTERPRETED:
                key = (t.decl().name(), tuple(z3.simplify(x).get_id() for x in kids))
                if key not in apps:
                    apps[key] = (z3.Real(f'__ack{len(apps)}'), t.decl().name(), kids)
                out = apps[key][0]
            else:
                out = t.decl()(*kids)
        else:
            out = t
        cache[k] = out
        return out
    res = [walk(f) for f in assertions]
    lst = list(apps.values())
    for i in range(len(lst)):
        for j in range(i + 1, len(lst)):
            ci, ni, ai = lst[i]
            cj, nj, aj = lst[j]
            if ni == nj and len(ai) == len(aj):
                res.append(z3.Implies(z3.And(*[x == y for x, y in zip(ai, aj)]), ci == cj))
    return res


def close(x, y, rtol=1e-9, atol=1e-12):
    try:
        if isinstance(x, (list, tuple)):
            return all(close(a, b, rtol, atol) for a, b in zip(x, y))
        x, y = complex(x), complex(y)
        if cmath.isnan(x) or cmath.isnan(y):
            return cmath.isnan(x) and cmath.isnan(y)
        return abs(x - y) <= atol + rtol * max(abs(x), abs(y))
    except Exception:
        return False
