"""
Small real Systems built through the public API (System.add / setup) of the current tree.
"""
import numpy as np

from . import core


def build(buses, lines=(), slacks=(), pvs=(), pqs=(), shunts=(), jumpers=(), extra=(), setup=True, str_idx=False,
          config=None):
    """
    buses:  list of bus idx (ints) or dicts
    lines:  list of dicts or (bus1, bus2) tuples
    slacks/pvs/pqs/shunts: list of dicts or bus idx
    extra: list of (model, dict)
    """
    ss = core.new_system()
    if config:
        for k, v in config.items():
            setattr(ss.config, k, v)
    T = (lambda x: f'B{x}') if str_idx else (lambda x: x)
    for b in buses:
        d = dict(b) if isinstance(b, dict) else dict(idx=b)
        d['idx'] = T(d['idx'])
        d.setdefault('Vn', 110.0)
        d.setdefault('name', f'bus{d["idx"]}')
        ss.add('Bus', d)
    for k, l in enumerate(lines):
        d = dict(l) if isinstance(l, dict) else dict(bus1=l[0], bus2=l[1])
        d['bus1'], d['bus2'] = T(d['bus1']), T(d['bus2'])
        d.setdefault('idx', f'L{k}' if str_idx else k + 1)
        d.setdefault('r', 0.01); d.setdefault('x', 0.1); d.setdefault('b', 0.02)
        d.setdefault('Vn1', 110.0); d.setdefault('Vn2', 110.0)
        ss.add('Line', d)
    for k, j in enumerate(jumpers):
        d = dict(j) if isinstance(j, dict) else dict(bus1=j[0], bus2=j[1])
        d['bus1'], d['bus2'] = T(d['bus1']), T(d['bus2'])
        ss.add('Jumper', d)
    for k, s in enumerate(slacks):
        d = dict(s) if isinstance(s, dict) else dict(bus=s)
        d['bus'] = T(d['bus'])
        d.setdefault('Vn', 110.0); d.setdefault('v0', 1.02); d.setdefault('a0', 0.0)
        ss.add('Slack', d)
    for k, s in enumerate(pvs):
        d = dict(s) if isinstance(s, dict) else dict(bus=s)
        d['bus'] = T(d['bus'])
        d.setdefault('Vn', 110.0); d.setdefault('v0', 1.01); d.setdefault('p0', 0.3)
        ss.add('PV', d)
    for k, s in enumerate(pqs):
        d = dict(s) if isinstance(s, dict) else dict(bus=s)
        d['bus'] = T(d['bus'])
        d.setdefault('Vn', 110.0); d.setdefault('p0', 0.4); d.setdefault('q0', 0.1)
        ss.add('PQ', d)
    for k, s in enumerate(shunts):
        d = dict(s) if isinstance(s, dict) else dict(bus=s)
        d['bus'] = T(d['bus'])
        d.setdefault('Vn', 110.0); d.setdefault('b', 0.05)
        ss.add('Shunt', d)
    for model, d in extra:
        ss.add(model, dict(d))
    if setup:
        ok = ss.setup()
        if not ok:
            raise RuntimeError('setup failed')
    return ss
