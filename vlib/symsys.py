"""
A real andes.System at a SYMBOLIC operating point (DESIGN.md A.2).

The System is built and initialised numerically through the public API; then the DAE
arrays, the model-level value/equation arrays that are not views of them, VarService
values, Jacobian value buffers and selected parameter / service arrays are replaced by
object arrays of pysym symbols (exploration) or by float arrays taken from a solver model
(replay) and the REAL update functions (PFlow.fg_update, TDS.fg_update, System.j_update ...)
are called on them.
"""
import types

import numpy as np

from . import pysym, kvshim


def _fill(I, n, prefix, keep=None):
    """array of n inputs named prefix{i}; `keep`: concrete values to use instead of symbols where not None"""
    return I.arr(*[(f'{prefix}{i}' if (keep is None or keep[i] is None) else float(keep[i])) for i in range(n)])


def prepare(ss, models, I, sym_params=None, sym_x=True, sym_y=True, tag=''):
    """
    Put `ss` at the operating point described by inputs of `I`.
    sym_params: {model_name: {attr_name: prefix or None}} parameter/service `.v` arrays to make inputs.
    Returns dict with the input arrays.
    """
    dae = ss.dae
    if not hasattr(ss, '_verif_xy0'):
        ss._verif_xy0 = (np.array(dae.x, dtype=float), np.array(dae.y, dtype=float))     # numeric point of the first call
    x0, y0 = ss._verif_xy0
    dae.x = _fill(I, dae.n, f'{tag}x') if sym_x else I.to_obj(x0.copy())
    dae.y = _fill(I, dae.m, f'{tag}y') if sym_y else I.to_obj(y0.copy())
    dae.f = I.zeros(dae.n)
    dae.g = I.zeros(dae.m)
    if hasattr(dae, 'h'):
        dae.h = I.zeros(len(dae.h))
    if hasattr(dae, 'i'):
        dae.i = I.zeros(len(dae.i))
    ss.set_var_arrays(models, inplace=True, alloc=False)
    used = {}
    for mn, m in models.items():
        if m.n == 0:
            continue
        for var in m.cache.all_vars.values():
            if not hasattr(var, 'v') or var.n == 0:
                continue
            if I.symbolic:
                if isinstance(var.e, np.ndarray) and var.e.dtype != object:
                    var.e = np.array(var.e, dtype=object)
                if isinstance(var.v, np.ndarray) and var.v.dtype != object:
                    var.v = np.array(var.v, dtype=object)
            else:
                if isinstance(var.e, np.ndarray) and var.e.dtype == object:
                    var.e = np.zeros(len(var.e))
                if isinstance(var.v, np.ndarray) and var.v.dtype == object:
                    var.v = np.zeros(len(var.v))
        for sv in m.services_var.values():
            sv.v = I.to_obj(np.array(np.zeros(m.n), dtype=float))
        for jn in list(m.triplets.vjac.keys()):
            bufs = m.triplets.vjac[jn]
            for k in range(len(bufs)):
                if isinstance(bufs[k], np.ndarray):
                    if jn.endswith('c'):
                        continue
                    bufs[k] = I.to_obj(np.zeros(len(bufs[k])))
        for pn, prefix in (sym_params or {}).get(mn, {}).items():
            inst = m.__dict__[pn]
            n = len(inst.v)
            arr = _fill(I, n, prefix if prefix else f'{tag}{mn}_{pn}_')
            inst.v = arr
            used[(mn, pn)] = arr
        m.get_inputs(refresh=True)
    ss.vars_to_models()
    return dict(x=dae.x.copy(), y=dae.y.copy(), params=used)


def shim_globals(f, **extra):
    """rebind a function of /repo to the kvshim sparse stub (exploration mode)"""
    g = dict(f.__globals__)
    g.update(spmatrix=kvshim.spmatrix, sparse=kvshim.sparse, matrix=kvshim.matrix, spdiag=kvshim.spdiag)
    g.update(extra)
    return types.FunctionType(f.__code__, g, f.__name__, f.__defaults__, f.__closure__)


def shim_dae_sparse(ss):
    """rebuild the stored sparsity templates of dae as kvshim matrices (exploration mode)"""
    dae = ss.dae
    for name in ('fx', 'fy', 'gx', 'gy'):
        dae.tpl[name] = kvshim.spmatrix(list(dae.triplets.vjac[name]), list(dae.triplets.ijac[name]),
                                        list(dae.triplets.jjac[name]), dae.get_size(name), 'd')
        dae.__dict__[name] = dae.tpl[name].copy()


def j_update(ss, models, I):
    """the real System.j_update; sparse accumulation through kvshim when symbolic"""
    import andes.system as SY
    import andes.variables.dae as DA
    if I.symbolic:
        shim_dae_sparse(ss)
        restore = shim_globals(DA.DAE.restore_sparse)
        ss.dae.restore_sparse = types.MethodType(restore, ss.dae)
        f = shim_globals(SY.System.j_update)
        ss.j_islands = types.MethodType(shim_globals(SY.System.j_islands), ss)
        try:
            f(ss, models)
        finally:
            del ss.dae.__dict__['restore_sparse']
            del ss.__dict__['j_islands']
    else:
        for name in ('fx', 'fy', 'gx', 'gy'):
            ss.dae.build_pattern(name)
        ss.j_update(models)


def entry(M, i, j):
    """entry (i, j) of a kvshim or kvxopt sparse matrix"""
    return M[int(i), int(j)]
