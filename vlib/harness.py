"""
Dual-mode harnesses for pysym.

A harness is a function h(I) that builds a pre-state from inputs obtained through `I`
(symbolic z3 reals in exploration mode, concrete floats taken from a solver model in replay
mode), calls REAL code of /repo, and returns a list of (claim name, claim) pairs built with
the helpers AND/OR/NOT/IFF/IMPLIES/EQ below.  In exploration mode every claim is a z3
formula decided per path (`path condition => claim`); a `sat` is replayed by running the
SAME harness on numpy float arrays made from the model -- i.e. on the unmodified real code
with ordinary numbers -- and only a claim that is False there is reported.
"""
import os
import time
import traceback

import numpy as np
import z3

from . import pysym
from .pysym import SR, SB


class ReplayPreconditionFailed(Exception):
    pass


class Inputs:
    def __init__(self, model=None, values=None):
        self.model = model
        self.values = values           # plain dict name -> float (replay from a JSON file)
        self.symbolic = model is None and values is None
        self.used = {}

    def real(self, name):
        if self.symbolic:
            v = SR(z3.Real(name))
        elif self.values is not None:
            v = np.float64(self.values.get(name, 0.0))
        else:
            v = np.float64(pysym.mval(self.model, z3.Real(name)))
        self.used[name] = None if self.symbolic else float(v)
        return v

    def boolean(self, name):
        if self.symbolic:
            return SB(z3.Bool(name))
        if self.values is not None:
            v = bool(self.values.get(name, False))
        else:
            v = z3.is_true(self.model.eval(z3.Bool(name), model_completion=True))
        self.used[name] = v
        return v

    def arr(self, *names):
        """1-d array of inputs: object dtype when symbolic, float64 when concrete"""
        if self.symbolic:
            a = np.empty(len(names), dtype=object)
            for i, n in enumerate(names):
                a[i] = self.real(n) if isinstance(n, str) else n
            return a
        return np.array([self.real(n) if isinstance(n, str) else float(n) for n in names], dtype=float)

    def zeros(self, n, fill=0.0):
        """array that may receive symbols later"""
        if self.symbolic:
            a = np.empty(n, dtype=object)
            a[:] = fill
            return a
        return np.full(n, fill, dtype=float)

    def to_obj(self, a):
        """make an existing numeric array able to receive symbols (no-op when concrete)"""
        if self.symbolic:
            return np.asarray(a).astype(object)
        return a

    def assume(self, cond):
        if self.symbolic:
            pysym.ENG.assume(cond.e if isinstance(cond, SB) else (z3.BoolVal(bool(cond))))
        else:
            if not bool(cond):
                raise ReplayPreconditionFailed()


# ---------------------------------------------------------------- claim combinators
def _issym(*xs):
    return any(isinstance(x, (SB, SR)) or z3.is_expr(x) for x in xs)


def _z(x):
    if isinstance(x, SB):
        return x.e
    if isinstance(x, SR):
        return x.e != 0
    if z3.is_expr(x):
        return x
    return z3.BoolVal(bool(x))


def AND(*xs):
    xs = [x for x in xs]
    if _issym(*xs):
        return SB(z3.And(*[_z(x) for x in xs]))
    return all(bool(x) for x in xs)


def OR(*xs):
    if _issym(*xs):
        return SB(z3.Or(*[_z(x) for x in xs]))
    return any(bool(x) for x in xs)


def NOT(x):
    if _issym(x):
        return SB(z3.Not(_z(x)))
    return not bool(x)


def IMPLIES(a, b):
    return OR(NOT(a), b)


def IFF(a, b):
    if _issym(a, b):
        return SB(_z(a) == _z(b))
    return bool(a) == bool(b)


def EQ(a, b, tol=1e-9):
    """numeric equality: exact in the solver, tolerance `tol` (relative) on floats"""
    if _issym(a, b):
        # expand the difference into a sum of monomials (uninterpreted applications are atoms): an identity that
        # holds by polynomial arithmetic alone disappears here and the solver only sees what is left
        d = z3.simplify(pysym.lift(a) - pysym.lift(b), som=True)
        if z3.is_rational_value(d):
            return PROVED if d.as_fraction() == 0 else False
        return SB(d == 0)
    a, b = float(a), float(b)
    if a != a or b != b:                      # NaN is never an acceptable result
        return False
    if a in (float('inf'), float('-inf')) or b in (float('inf'), float('-inf')):
        return a == b
    return abs(a - b) <= tol * max(1.0, abs(a), abs(b))


def LE(a, b, tol=1e-12):
    if _issym(a, b):
        return SB(pysym.lift(a) <= pysym.lift(b))
    return float(a) <= float(b) + tol


def LT(a, b):
    if _issym(a, b):
        return SB(pysym.lift(a) < pysym.lift(b))
    return float(a) < float(b)


def ITE(c, a, b):
    if _issym(c, a, b):
        return SR(z3.If(_z(c), pysym.lift(a), pysym.lift(b)))
    return a if bool(c) else b


class _Proved:
    """an equality between symbolic terms that z3's normaliser reduced to 0 == 0 (counted as a discharged obligation)"""
    def __bool__(self):
        return True

    def __repr__(self):
        return 'PROVED'


PROVED = _Proved()


def TRUE():
    return True


def raised_in_repo(exc):
    """True if code of /repo (or code cut from its source) is on the traceback of the exception, i.e. it was raised by
    or propagated through the code under test; exceptions of harness code alone are harness errors"""
    import os
    from . import core
    repo = os.path.realpath(core.REPO) + os.sep
    tb = exc.__traceback__
    while tb is not None:
        fn = tb.tb_frame.f_code.co_filename
        if fn.startswith('<repo:') or os.path.realpath(fn).startswith(repo):
            return True
        tb = tb.tb_next
    return False


class Raised:
    """returned by a harness to say: the real code raised this exception (a result, not an error)"""

    def __init__(self, exc):
        self.exc = exc


# ---------------------------------------------------------------- driver
def _lemmas(terms):
    """true instances of trigonometric / power lemmas for the uninterpreted applications in `terms`"""
    from . import eqsmt
    txt = ' '.join(t.sexpr()[:20000] for t in terms[:50])
    if not any(k in txt for k in ('(sin ', '(cos ', '(pow ', '(sqrt_ ')):
        return []
    try:
        return eqsmt.trig_axioms(list(terms))
    except Exception:
        return []


def run(hname, fn, timeout_ms=10000, max_paths=4000, region=None, expect_exc=(), engine_timeout_ms=5000,
        twin=True, describe=None, known_regions=None, max_seconds=None):
    """
    Explore fn symbolically, decide every claim on every path, replay counterexamples.
    Returns a list of result dicts (see vlib.core.Check.merge).
    `region(values: dict, claim_name) -> str` maps a counterexample to a known-finding region key.
    """
    res = []
    eng = pysym.reset(engine_timeout_ms)
    npaths = 0
    t00 = time.time()
    reached = set()
    try:
        budget = max_seconds or float(os.environ.get('VERIF_HARNESS_SECONDS', '900'))
        for path in eng.explore(lambda: fn(Inputs()), max_paths=max_paths):
            npaths += 1
            if time.time() - t00 > budget:
                # wall budget of one harness: the rest of the path space is NOT explored and is reported as such
                res.append(dict(harness=hname, name=f'paths beyond #{npaths}', status='unknown', detail=f'wall budget of {budget:.0f} s exceeded'))
                break
            if isinstance(path.exc, pysym.Abort):
                res.append(dict(harness=hname, name=f'path{npaths}', status='unknown', detail=f'bound exceeded: {path.exc}'))
                continue
            claims = path.out
            if path.exc is not None:
                if isinstance(path.exc, tuple(expect_exc)):
                    continue
                if not raised_in_repo(path.exc):
                    res.append(dict(kind='error', msg=f'{hname}: harness code raised {type(path.exc).__name__}: {path.exc} | '
                                    + traceback.format_exception(path.exc)[-2][:300]))
                    continue
                claims = [('no exception', False, repr(path.exc)[:200])]
                if os.environ.get('VERIF_DEBUG'):
                    traceback.print_exception(path.exc)
            pending = []
            for item in claims or []:
                cname, claim = item[0], item[1]
                reached.add(cname)
                if claim is PROVED:
                    res.append(dict(harness=hname, name=f'{cname} @path{npaths} (by normalisation)', status='unsat', secs=0.0))
                    continue
                if claim is True or (isinstance(claim, (bool, np.bool_)) and claim):
                    continue
                pending.append((cname, _z(claim)))
            lem = _lemmas([c for _, c in pending] + path.cond()) if pending else []
            if len(pending) > 1:
                # one query for the conjunction; only if it is not proved are the claims decided one by one
                st, mdl, dt = pysym.decide(path.cond() + lem, z3.And(*[c for _, c in pending]), timeout_ms)
                if st == 'unsat':
                    for k, (cname, _) in enumerate(pending):
                        res.append(dict(harness=hname, name=f'{cname} @path{npaths}', status='unsat',
                                        secs=dt if k == 0 else 0.0))
                    continue
            for cname, zc in pending:
                excl = []
                for _round in range(4):
                    st, mdl, dt = pysym.decide(path.cond() + lem + excl, zc, timeout_ms)
                    again = False
                    if st == 'unsat':
                        res.append(dict(harness=hname, name=f'{cname} @path{npaths}' + (' outside known regions' if excl else ''),
                                        status='unsat', secs=dt))
                    elif st == 'sat':
                        ok, info = _replay(fn, mdl, cname)
                        if ok:
                            rg = region(info['inputs'], cname) if region else cname
                            res.append(dict(harness=hname, name=f'{cname} @path{npaths}', status='sat-replayed', secs=dt))
                            res.append(dict(kind='violation', harness=hname, region=rg,
                                            desc=(describe(info['inputs'], cname) if describe else
                                                  f'{hname}: claim "{cname}" is false on the real code for inputs {info["inputs"]}'
                                                  + (f' ({info["detail"]})' if info.get('detail') else '')),
                                            replay=dict(harness=hname, claim=cname, inputs=info['inputs'],
                                                        detail=info.get('detail'))))
                            # a listed known-finding region: look for a violation OUTSIDE it as well
                            if known_regions and rg in known_regions:
                                excl = excl + [z3.Not(known_regions[rg])]
                                again = True
                        else:
                            res.append(dict(harness=hname, name=f'{cname} @path{npaths}', status='sat-not-reproduced', secs=dt,
                                            detail=info))
                    else:
                        # solver gave up on the full query.  Ask for a candidate from the RELAXED query (definitions of
                        # reciprocals / lemma instances dropped: a weaker pre-condition), and replay it on the real code:
                        # only a reproduced counterexample is reported, otherwise the obligation stays `unknown`.
                        relaxed = [c for c in path.cond() if 'recip' not in c.sexpr()[:100000]]
                        st2, mdl2, dt2 = pysym.decide(relaxed + excl, zc, min(timeout_ms, 20000))
                        done = False
                        if st2 == 'sat':
                            ok, info = _replay(fn, mdl2, cname)
                            if ok:
                                rg = region(info['inputs'], cname) if region else cname
                                res.append(dict(harness=hname, name=f'{cname} @path{npaths}', status='sat-replayed', secs=dt + dt2))
                                res.append(dict(kind='violation', harness=hname, region=rg,
                                                desc=(describe(info['inputs'], cname) if describe else
                                                      f'{hname}: claim "{cname}" is false on the real code for inputs {info["inputs"]}'),
                                                replay=dict(harness=hname, claim=cname, inputs=info['inputs'],
                                                            detail='candidate from the relaxed query, confirmed by replay')))
                                done = True
                        if not done:
                            res.append(dict(harness=hname, name=f'{cname} @path{npaths}', status='unknown', secs=dt + dt2))
                    if not again:
                        break
    except pysym.Abort as e:
        res.append(dict(harness=hname, name='exploration', status='unknown', detail=f'bound exceeded: {e}'))
    res.append(dict(kind='paths', n=npaths))
    if twin:
        # reachability witness: the harness produced at least one path with at least one decided claim
        res.append(dict(harness='twin', name=f'{hname}.reachable',
                        status='witness-ok' if (npaths > 0 and reached) else 'witness-missing'))
    eng_s = eng.solver_s
    res.append(dict(kind='ob_time', harness=hname, secs=eng_s, queries=eng.queries))
    return res


def _replay(fn, mdl, cname):
    I = Inputs(model=mdl)
    try:
        out = fn(I)
    except ReplayPreconditionFailed:
        return False, {'why': 'model violates a harness precondition after rounding', 'inputs': I.used}
    except pysym.Infeasible:
        return False, {'why': 'infeasible', 'inputs': I.used}
    except Exception as e:
        if cname == 'no exception' and raised_in_repo(e):
            return True, {'inputs': I.used, 'detail': f'real code raises {type(e).__name__}: {e}'}
        return False, {'why': f'replay raised {type(e).__name__}: {e}', 'inputs': I.used,
                       'tb': traceback.format_exc()[-500:]}
    for item in out or []:
        if item[0] == cname:
            v = item[1]
            if isinstance(v, (SB, SR)) or z3.is_expr(v):
                return False, {'why': 'claim stayed symbolic in replay', 'inputs': I.used}
            if not bool(v):
                return True, {'inputs': I.used, 'detail': item[2] if len(item) > 2 else None}
            return False, {'why': 'claim holds on the real code at the model point', 'inputs': I.used}
    return False, {'why': 'claim not produced on the replayed path', 'inputs': I.used}


def replay_values(fn, values):
    """re-run a harness on stored concrete inputs (./check <id> --replay)"""
    I = Inputs(values=values)
    out = fn(I)
    return [(i[0], bool(i[1])) for i in out or []]
