"""
E3: run CrossHair (symbolic execution of Python with z3) on contract functions of a harness file, one process per
condition.  "Confirmed over all paths" = proved within the stated bounds; a counterexample is taken from the message;
"Not confirmed" / "Unable to meet precondition" / timeout = inconclusive.
"""
import ast
import os
import re
import subprocess
import sys
import time


def functions(path):
    tree = ast.parse(open(path).read())
    return [(n.name, n.lineno + 1) for n in tree.body if isinstance(n, ast.FunctionDef) and not n.name.startswith('_')]


def run_one(path, name, line, per_condition_timeout):
    exe = os.path.join(os.path.dirname(sys.executable), 'crosshair')
    t = time.time()
    try:
        r = subprocess.run([exe, 'check', '--report_all', '--per_condition_timeout', str(per_condition_timeout), f'{path}:{line}'],
                           capture_output=True, text=True, timeout=per_condition_timeout * 3 + 60,
                           env=dict(os.environ, PYTHONPATH=os.path.dirname(os.path.dirname(path)) + ':' + os.environ.get('PYTHONPATH', '')))
        out = r.stdout + r.stderr
    except subprocess.TimeoutExpired:
        out = 'timeout'
    dt = time.time() - t
    if 'Confirmed over all paths' in out:
        return 'confirmed', out.strip().splitlines()[-1][:300], dt
    m = re.search(r'error: (.*)', out)
    if m:
        return 'counterexample', m.group(1)[:400], dt
    return 'inconclusive', (out.strip().splitlines() or ['no output'])[-1][:300], dt


def job(spec):
    path, name, line, to = spec
    return (name,) + run_one(path, name, line, to)
