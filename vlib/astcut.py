"""
Cutting code out of the CURRENT source of /repo by AST surgery (never by editing /repo):
  * quiet(func): the same function with message formatting / logging statements removed
    (tqdm.write, logger.*, print) -- "formatting and logging get empty bodies".
"""
import ast
import inspect
import textwrap

_PATCHED = {}


def _is_log_call(node):
    if not (isinstance(node, ast.Expr) and isinstance(node.value, ast.Call)):
        return False
    f = ast.unparse(node.value.func)
    return f in ('tqdm.write', 'print') or f.startswith('logger.')


class _Strip(ast.NodeTransformer):
    def __init__(self):
        self.cuts = []

    def generic_visit(self, node):
        super().generic_visit(node)
        for field in ('body', 'orelse', 'finalbody'):
            stmts = getattr(node, field, None)
            if isinstance(stmts, list):
                new = []
                for s in stmts:
                    if isinstance(s, ast.stmt) and _is_log_call(s):
                        self.cuts.append(ast.unparse(s)[:50])
                    else:
                        new.append(s)
                if not new and stmts and field == 'body':
                    new = [ast.Pass()]
                setattr(node, field, new)
        return node


def quiet(func):
    src = textwrap.dedent(inspect.getsource(func))
    tree = ast.parse(src)
    st = _Strip()
    tree = st.visit(tree)
    ast.fix_missing_locations(tree)
    g = func.__globals__
    loc = {}
    exec(compile(tree, f'<repo:{func.__qualname__} without logging>', 'exec'), g, loc)
    f = loc[func.__name__]
    f._cuts = st.cuts
    return f


def patch_quiet(cls, name):
    key = (cls, name)
    if key in _PATCHED:
        return
    orig = cls.__dict__[name]
    _PATCHED[key] = orig
    setattr(cls, name, quiet(orig))


def unpatch_all():
    for (cls, name), orig in list(_PATCHED.items()):
        setattr(cls, name, orig)
    _PATCHED.clear()
