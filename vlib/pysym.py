"""Prototype path-forking symbolic executor: z3-valued scalars carried by numpy object arrays."""
import z3, numpy as np, time

class Engine:
    def __init__(self):
        self.solver = z3.Solver()
        self.prefix = []      # decisions to replay
        self.trace = []       # decisions taken in this run
        self.pc = []          # path condition
        self.todo = []        # pending prefixes
        self.queries = 0
    def branch(self, cond):
        cond = z3.simplify(cond)
        if z3.is_true(cond): return True
        if z3.is_false(cond): return False
        i = len(self.trace)
        if i < len(self.prefix):
            d = self.prefix[i]
        else:
            # feasibility of both sides
            self.solver.push(); self.solver.add(*self.pc, cond); self.queries += 1
            t_ok = self.solver.check() == z3.sat; self.solver.pop()
            self.solver.push(); self.solver.add(*self.pc, z3.Not(cond)); self.queries += 1
            f_ok = self.solver.check() == z3.sat; self.solver.pop()
            if t_ok and f_ok:
                self.todo.append(self.trace + [False]); d = True
            elif t_ok: d = True
            elif f_ok: d = False
            else: raise Infeasible()
        self.trace.append(d)
        self.pc.append(cond if d else z3.Not(cond))
        return d
    def explore(self, fn, max_paths=10000):
        self.todo = [[]]; n = 0
        while self.todo and n < max_paths:
            self.prefix = self.todo.pop(); self.trace = []; self.pc = []
            try:
                out = fn()
            except Infeasible:
                continue
            n += 1
            yield list(self.pc), out

class Infeasible(Exception): pass
ENG = Engine()

def lift(x):
    if isinstance(x, SR): return x.e
    if isinstance(x, SB): return z3.If(x.e, z3.RealVal(1), z3.RealVal(0))
    if isinstance(x, (bool, np.bool_)): return z3.RealVal(int(x))
    if isinstance(x, (int, np.integer)): return z3.RealVal(int(x))
    if isinstance(x, (float, np.floating)):
        from fractions import Fraction
        f = Fraction(float(x)); return z3.RealVal(f'{f.numerator}/{f.denominator}')
    raise TypeError(type(x))

UFS = {n: z3.Function(n, z3.RealSort(), z3.RealSort()) for n in ('sin','cos','tan','exp','log','sqrt_')}

class SB:
    def __init__(self, e): self.e = e
    def __bool__(self): return ENG.branch(self.e)
    def __and__(self, o): return SB(z3.And(self.e, tobool(o)))
    __rand__ = __and__
    def __or__(self, o): return SB(z3.Or(self.e, tobool(o)))
    __ror__ = __or__
    def __invert__(self): return SB(z3.Not(self.e))
    def logical_not(self): return SB(z3.Not(self.e))
    def _n(self): return SR(lift(self))
    def __mul__(self, o): return self._n() * o
    __rmul__ = __mul__
    def __add__(self, o): return self._n() + o
    __radd__ = __add__
    def __sub__(self, o): return self._n() - o
    def __rsub__(self, o): return SR(lift(o)) - self._n()
    def __eq__(self, o): return self._n() == o
    def __float__(self): return 1.0 if bool(self) else 0.0
    __hash__ = None

def tobool(o):
    if isinstance(o, SB): return o.e
    if isinstance(o, SR): return o.e != 0
    return z3.BoolVal(bool(o))

class SR:
    __array_priority__ = 1000
    def __init__(self, e): self.e = e
    def __add__(self, o): 
        if isinstance(o, np.ndarray): return NotImplemented
        return SR(self.e + lift(o))
    __radd__ = __add__
    def __sub__(self, o): 
        if isinstance(o, np.ndarray): return NotImplemented
        return SR(self.e - lift(o))
    def __rsub__(self, o): 
        if isinstance(o, np.ndarray): return NotImplemented
        return SR(lift(o) - self.e)
    def __mul__(self, o): 
        if isinstance(o, np.ndarray): return NotImplemented
        return SR(self.e * lift(o))
    __rmul__ = __mul__
    def __truediv__(self, o): 
        if isinstance(o, np.ndarray): return NotImplemented
        return _quot(self.e, lift(o))
    def __rtruediv__(self, o): 
        if isinstance(o, np.ndarray): return NotImplemented
        return _quot(lift(o), self.e)
    def __neg__(self): return SR(-self.e)
    def __round__(self, n=None): return self
    def sin(self): return SR(UFS['sin'](self.e))
    def cos(self): return SR(UFS['cos'](self.e))
    def tan(self): return SR(UFS['tan'](self.e))
    def exp(self): return SR(UFS['exp'](self.e))
    def log(self): return SR(UFS['log'](self.e))
    def sqrt(self): return SR(UFS['sqrt_'](self.e))
    def __pow__(self, p):
        if isinstance(p, (int, float)) and float(p).is_integer():
            p = int(p)
            if p == 0: return SR(z3.RealVal(1))
            if p < 0: return 1 / (self ** (-p))
            out = self
            for _ in range(p - 1): out = out * self
            return out
        raise NotImplementedError(('pow', p))
    def tolist(self): return self
    def __abs__(self): return SR(z3.If(self.e >= 0, self.e, -self.e))
    def __lt__(self, o): 
        if isinstance(o, np.ndarray): return NotImplemented
        return SB(self.e < lift(o))
    def __le__(self, o): 
        if isinstance(o, np.ndarray): return NotImplemented
        return SB(self.e <= lift(o))
    def __gt__(self, o): 
        if isinstance(o, np.ndarray): return NotImplemented
        return SB(self.e > lift(o))
    def __ge__(self, o): 
        if isinstance(o, np.ndarray): return NotImplemented
        return SB(self.e >= lift(o))
    def __eq__(self, o): 
        if isinstance(o, np.ndarray): return NotImplemented
        return SB(self.e == lift(o))
    def __ne__(self, o): 
        if isinstance(o, np.ndarray): return NotImplemented
        return SB(self.e != lift(o))
    def __bool__(self): return ENG.branch(self.e != 0)
    def logical_not(self): return SB(self.e == 0)
    __hash__ = None

DEFS = []
_qk = [0]
def _quot(num, den):
    den_s = z3.simplify(den)
    if z3.is_rational_value(den_s):
        return SR(num / den_s)
    _qk[0] += 1
    q = z3.Real(f'__q{_qk[0]}')
    DEFS.append(z3.And(den != 0, q * den == num))
    return SR(q)

def sym(name): return SR(z3.Real(name))
def arr(*names): 
    a = np.empty(len(names), dtype=object)
    for i, n in enumerate(names): a[i] = sym(n) if isinstance(n, str) else n
    return a
