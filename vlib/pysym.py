"""
E2 pysym: path-forking symbolic execution of the real Python/numpy code of /repo.

Real functions are called unmodified on objects whose leaves are z3-valued scalars
(SR real, SB bool), usually carried in numpy *object* arrays.  Arithmetic builds z3 terms;
every place where Python needs a concrete truth value (`if`, comparison ufuncs on object
arrays, argmax, sorted, np.where ...) ends in `__bool__`, where the engine asks the solver
which sides are feasible under the current path condition, takes one and queues the other
(re-execution from the start with a decision prefix).  One finished path yields
(path condition, definitions, result); the property is then decided per path by a query.
"""
import time
from fractions import Fraction

import numpy as np
import z3

R = z3.RealSort()
UFS = {n: z3.Function(n, R, R) for n in ('sin', 'cos', 'tan', 'exp', 'log', 'sqrt_', 'atan')}
UFS2 = {n: z3.Function(n, R, R, R) for n in ('atan2', 'pow')}
RECIP = z3.Function('recip', R, R)


class Infeasible(Exception):
    """the current path condition is unsatisfiable"""


class Abort(Exception):
    """a bound (unwinding, max depth) was exceeded on this path: the path is inconclusive"""


class Engine:
    def __init__(self, timeout_ms=5000):
        self.solver = z3.Solver()
        self.solver.set('timeout', timeout_ms)
        self.prefix = []
        self.trace = []
        self.pc = []
        self.defs = []
        self.todo = []
        self.queries = 0
        self.solver_s = 0.0
        self.k = 0
        self.max_depth = 400
        self.unknown_branches = 0
        self.base = []          # global preconditions (assumed on every path)
        self.div_mode = 'assume'  # 'assume': fresh quotient q with q*den = num, den != 0 recorded; 'recip': shared reciprocal UF;
        #                           'direct': keep num/den as a term; 'fork': branch on den == 0

    def fresh(self, p='q'):
        self.k += 1
        return z3.Real(f'__{p}{self.k}')

    def _sat(self, *extra):
        self.solver.push()
        self.solver.add(*self.base, *self.pc, *self.defs, *extra)
        t = time.time()
        r = self.solver.check()
        self.solver_s += time.time() - t
        self.queries += 1
        self.solver.pop()
        return r

    def branch(self, cond):
        cond = z3.simplify(cond)
        if z3.is_true(cond):
            return True
        if z3.is_false(cond):
            return False
        i = len(self.trace)
        if i >= 50 * self.max_depth:
            raise Abort('max branch depth')
        if i < len(self.prefix):
            d = self.prefix[i]
        else:
            rt = self._sat(cond)
            rf = self._sat(z3.Not(cond))
            t_ok, f_ok = rt != z3.unsat, rf != z3.unsat
            if rt == z3.unknown or rf == z3.unknown:
                self.unknown_branches += 1
            if t_ok and f_ok:
                self.todo.append(self.trace + [False])
                d = True
            elif t_ok:
                d = True
            elif f_ok:
                d = False
            else:
                raise Infeasible()
        self.trace.append(d)
        self.pc.append(cond if d else z3.Not(cond))
        return d

    def assume(self, cond):
        """restrict the current path (precondition placed before the code it constrains)"""
        cond = z3.simplify(cond if not isinstance(cond, SB) else cond.e)
        if z3.is_true(cond):
            return
        self.pc.append(cond)
        if z3.is_false(cond) or self._sat() == z3.unsat:
            raise Infeasible()

    def explore(self, fn, max_paths=20000):
        """run fn() once per feasible path; yields Path objects"""
        self.todo = [[]]
        n = 0
        while self.todo:
            if n >= max_paths:
                raise Abort(f'more than {max_paths} paths')
            self.prefix = self.todo.pop()
            self.trace, self.pc, self.defs, self.k = [], [], [], 0
            exc = None
            out = None
            try:
                out = fn()
            except Infeasible:
                continue
            except Abort as e:
                exc = e
            except Exception as e:      # the code under test raised: a result in its own right
                exc = e
            n += 1
            yield Path(list(self.pc), list(self.defs), out, exc, list(self.trace))


class Path:
    def __init__(self, pc, defs, out, exc, trace):
        self.pc, self.defs, self.out, self.exc, self.trace = pc, defs, out, exc, trace

    def cond(self):
        return list(ENG.base) + self.pc + self.defs


ENG = Engine()


def reset(timeout_ms=5000):
    global ENG
    ENG = Engine(timeout_ms)
    return ENG


# --------------------------------------------------------------------------- values
def ratval(x):
    f = Fraction(x)
    return z3.RealVal(f'{f.numerator}/{f.denominator}')


def lift(x):
    if isinstance(x, SR):
        return x.e
    if isinstance(x, SB):
        return z3.If(x.e, z3.RealVal(1), z3.RealVal(0))
    if isinstance(x, (bool, np.bool_)):
        return z3.RealVal(int(x))
    if isinstance(x, (int, np.integer)):
        return z3.RealVal(int(x))
    if isinstance(x, (float, np.floating)):
        return ratval(float(x))
    if isinstance(x, Fraction):
        return ratval(x)
    if isinstance(x, np.ndarray) and x.ndim == 0:
        return lift(x.item())
    if z3.is_expr(x):
        return x
    raise TypeError(type(x))


def tobool(o):
    if isinstance(o, SB):
        return o.e
    if isinstance(o, SR):
        return o.e != 0
    return z3.BoolVal(bool(o))


class SB:
    """symbolic boolean"""
    __array_priority__ = 1000

    def __init__(self, e):
        self.e = e

    def __bool__(self):
        return ENG.branch(self.e)

    def __and__(self, o):
        if _nd(o): return _bcast(operator.and_, self, o)
        return SB(z3.And(self.e, tobool(o)))
    __rand__ = __and__

    def __or__(self, o):
        if _nd(o): return _bcast(operator.or_, self, o)
        return SB(z3.Or(self.e, tobool(o)))
    __ror__ = __or__

    def __xor__(self, o):
        if _nd(o): return _bcast(operator.xor, self, o)
        return SB(z3.Xor(self.e, tobool(o)))
    __rxor__ = __xor__

    def __invert__(self): return SB(z3.Not(self.e))
    def tolist(self): return bool(self)          # numpy.bool_.tolist() gives a Python bool: decide it here (fork)
    def item(self): return bool(self)
    def logical_not(self): return SB(z3.Not(self.e))
    def _n(self): return SR(lift(self))
    def __mul__(self, o):
        if _nd(o): return _bcast(operator.mul, self, o)
        return self._n() * o
    __rmul__ = __mul__
    def __add__(self, o):
        if _nd(o): return _bcast(operator.add, self, o)
        return self._n() + o
    __radd__ = __add__
    def __sub__(self, o):
        if _nd(o): return _bcast(operator.sub, self, o)
        return self._n() - o
    def __rsub__(self, o):
        if _nd(o): return _bcast(_rsub, self, o)
        return SR(lift(o)) - self._n()
    def __neg__(self): return -self._n()
    def __eq__(self, o):
        if _nd(o): return _bcast(operator.eq, self, o)
        if isinstance(o, SB): return SB(self.e == o.e)
        return self._n() == o
    def __ne__(self, o):
        if _nd(o): return _bcast(operator.ne, self, o)
        if isinstance(o, SB): return SB(self.e != o.e)
        return self._n() != o
    def __lt__(self, o): return self._n() < o
    def __le__(self, o): return self._n() <= o
    def __gt__(self, o): return self._n() > o
    def __ge__(self, o): return self._n() >= o
    def __float__(self): return 1.0 if bool(self) else 0.0
    def __int__(self): return 1 if bool(self) else 0
    def __index__(self): return 1 if bool(self) else 0
    def __repr__(self): return f'SB({self.e})'
    __hash__ = None


import operator


def _rsub(a, b): return b - a
def _rtruediv(a, b): return b / a


def _bcast(op, scalar, array):
    """scalar (SR/SB) OP ndarray: broadcast through a 0-d object array so numpy applies OP element-wise"""
    z = np.empty((), dtype=object)
    z[()] = scalar
    return op(z, array)


def _scalar(o):
    """operand types the symbolic scalars know how to combine with; anything else gets NotImplemented so that
    the other operand's reflected method (e.g. a matrix type) takes over"""
    return isinstance(o, (SR, SB, bool, int, float, np.bool_, np.integer, np.floating, Fraction)) or z3.is_expr(o) \
        or (isinstance(o, np.ndarray) and o.ndim == 0)


def _nd(o):
    return isinstance(o, np.ndarray) and o.ndim > 0


class SR:
    """symbolic real"""
    __array_priority__ = 1000

    def __init__(self, e):
        self.e = e

    def __add__(self, o):
        if _nd(o): return _bcast(operator.add, self, o)
        if not _scalar(o): return NotImplemented
        return SR(self.e + lift(o))
    __radd__ = __add__
    def __sub__(self, o):
        if _nd(o): return _bcast(operator.sub, self, o)
        if not _scalar(o): return NotImplemented
        return SR(self.e - lift(o))
    def __rsub__(self, o):
        if _nd(o): return _bcast(_rsub, self, o)
        if not _scalar(o): return NotImplemented
        return SR(lift(o) - self.e)
    def __mul__(self, o):
        if _nd(o): return _bcast(operator.mul, self, o)
        if not _scalar(o): return NotImplemented
        return SR(self.e * lift(o))
    __rmul__ = __mul__
    def __truediv__(self, o):
        if _nd(o): return _bcast(operator.truediv, self, o)
        if not _scalar(o): return NotImplemented
        return quot(self.e, lift(o))
    def __rtruediv__(self, o):
        if _nd(o): return _bcast(_rtruediv, self, o)
        if not _scalar(o): return NotImplemented
        return quot(lift(o), self.e)
    def __neg__(self): return SR(-self.e)
    def __pos__(self): return self
    def rint(self):
        """nearest integer (ties either way: the claim must not depend on the tie rule)"""
        ENG.k += 1
        k = z3.Int(f'__rint{ENG.k}')
        ENG.defs.append(z3.And(self.e - z3.RealVal('1/2') <= z3.ToReal(k), z3.ToReal(k) <= self.e + z3.RealVal('1/2')))
        return SR(z3.ToReal(k))

    def __round__(self, n=None):
        if n is None or n == 0:
            return self.rint()
        p = z3.RealVal(10 ** int(n))
        return SR(SR(self.e * p).rint().e / p)

    def round(self, n=0):
        return self.__round__(n)
    def sin(self): return SR(UFS['sin'](self.e))
    def cos(self): return SR(UFS['cos'](self.e))
    def tan(self): return SR(UFS['tan'](self.e))
    def exp(self): return SR(UFS['exp'](self.e))
    def log(self): return SR(UFS['log'](self.e))
    def arctan(self): return SR(UFS['atan'](self.e))
    def sqrt(self):
        s = UFS['sqrt_'](self.e)
        ENG.defs.append(z3.Implies(self.e >= 0, z3.And(s >= 0, s * s == self.e)))
        return SR(s)
    def conjugate(self): return self
    conj = conjugate
    @property
    def real(self): return self
    @property
    def imag(self): return SR(z3.RealVal(0))

    def __pow__(self, p):
        if isinstance(p, SR):
            pv = z3.simplify(p.e)
            if z3.is_rational_value(pv):
                p = float(pv.as_fraction())
            else:
                return SR(UFS2['pow'](self.e, p.e))
        if isinstance(p, (np.integer, np.floating)):
            p = p.item()
        if isinstance(p, (int, float)) and float(p).is_integer():
            p = int(p)
            if p == 0: return SR(z3.RealVal(1))
            if p < 0: return 1 / (self ** (-p))
            out = self
            for _ in range(p - 1): out = out * self
            return out
        if p == 0.5:
            return self.sqrt()
        return SR(UFS2['pow'](self.e, lift(p)))

    def __rpow__(self, b):
        return SR(UFS2['pow'](lift(b), self.e))

    def tolist(self): return self
    def item(self): return self
    def copy(self): return self
    def __abs__(self): return SR(z3.If(self.e >= 0, self.e, -self.e))
    def __lt__(self, o):
        if _nd(o): return _bcast(operator.lt, self, o)
        if getattr(o, '_foreign_number', False): return NotImplemented      # let the other operand's reflected comparison decide
        return SB(self.e < lift(o))
    def __le__(self, o):
        if _nd(o): return _bcast(operator.le, self, o)
        if getattr(o, '_foreign_number', False): return NotImplemented      # let the other operand's reflected comparison decide
        return SB(self.e <= lift(o))
    def __gt__(self, o):
        if _nd(o): return _bcast(operator.gt, self, o)
        if getattr(o, '_foreign_number', False): return NotImplemented      # let the other operand's reflected comparison decide
        return SB(self.e > lift(o))
    def __ge__(self, o):
        if _nd(o): return _bcast(operator.ge, self, o)
        if getattr(o, '_foreign_number', False): return NotImplemented      # let the other operand's reflected comparison decide
        return SB(self.e >= lift(o))
    def __eq__(self, o):
        if _nd(o): return _bcast(operator.eq, self, o)
        if o is None: return False
        return SB(self.e == lift(o))
    def __ne__(self, o):
        if _nd(o): return _bcast(operator.ne, self, o)
        if o is None: return True
        return SB(self.e != lift(o))
    def __bool__(self): return ENG.branch(self.e != 0)
    def logical_not(self): return SB(self.e == 0)
    def __repr__(self): return f'SR({z3.simplify(self.e)})'
    def __format__(self, spec): return repr(self)
    def __hash__(self): return 0      # dict/set membership then decides by __eq__ (a fork)

    def _concrete(self):
        """value of this term if the path condition determines it uniquely (e.g. a 0/1 status after
        the branches taken); otherwise the path is aborted as inconclusive -- never a guessed value"""
        e = z3.simplify(self.e)
        if z3.is_rational_value(e):
            return e.as_fraction()
        s = ENG.solver
        s.push()
        s.add(*ENG.base, *ENG.pc, *ENG.defs)
        ENG.queries += 1
        if s.check() != z3.sat:
            s.pop()
            raise Infeasible()
        v = s.model().eval(e, model_completion=True)
        s.add(e != v)
        ENG.queries += 1
        r = s.check()
        s.pop()
        if r != z3.unsat or not z3.is_rational_value(v):
            raise Abort('a symbolic value had to be stored into a numeric (non-object) array but is not determined '
                        'by the path condition')
        return v.as_fraction()

    def __float__(self): return float(self._concrete())
    def __int__(self): return int(self._concrete())
    def __index__(self): return int(self._concrete())



def quot(num, den):
    """division-free quotient: fresh q with q*den = num and den != 0 (definedness is an explicit
    assumption of the path); constant denominators divide directly"""
    den_s = z3.simplify(den)
    if z3.is_rational_value(den_s):
        if den_s.as_fraction() == 0:
            raise ZeroDivisionError('symbolic division by constant zero')
        return SR(num / den_s)
    if ENG.div_mode == 'direct':
        # keep the quotient as a term (needed when the result is differentiated); definedness assumed
        ENG.defs.append(den != 0)
        return SR(num / den)
    if ENG.div_mode == 'fork':
        # definedness is NOT assumed: the path forks on den == 0 and the quotient is an arbitrary value there
        # (numpy would produce inf/nan); claims about the result then fail on that branch
        if ENG.branch(den == 0):
            return SR(ENG.fresh('undef'))
        q = ENG.fresh('q')
        ENG.defs.append(q * den == num)
        return SR(q)
    if ENG.div_mode == 'recip':
        # reciprocal as an uninterpreted function of the (simplified) denominator with its defining equation:
        # equal denominators share one reciprocal, so identities between quotients stay polynomial
        rc = RECIP(den_s)
        d = den_s * rc == 1
        if not any(z3.eq(d, o) for o in ENG.defs[-40:]):
            ENG.defs.append(d)
        return SR(num * rc)
    q = ENG.fresh('q')
    ENG.defs.append(z3.And(den != 0, q * den == num))
    return SR(q)


def sym(name):
    return SR(z3.Real(name))


def symb(name):
    return SB(z3.Bool(name))


def arr(*items):
    a = np.empty(len(items), dtype=object)
    for i, n in enumerate(items):
        a[i] = sym(n) if isinstance(n, str) else n
    return a


def symarr(prefix, n):
    return arr(*[f'{prefix}{i}' for i in range(n)])


def oarr(values):
    """object array from a list of numbers / SR"""
    a = np.empty(len(values), dtype=object)
    for i, v in enumerate(values):
        a[i] = v
    return a


def terms(a):
    """list of z3 terms of an object array / list / scalar"""
    if isinstance(a, np.ndarray):
        return [lift(x) for x in a.ravel().tolist()]
    if isinstance(a, (list, tuple)):
        return [lift(x) for x in a]
    return [lift(a)]


# --------------------------------------------------------------------------- deciding
def decide(path_cond, claim, timeout_ms=10000, extra=()):
    """is `claim` implied by the path condition?  -> (status, model, secs)"""
    s = z3.Solver()
    s.set('timeout', timeout_ms)
    s.add(*path_cond, *extra)
    s.add(z3.Not(claim))
    t = time.time()
    r = str(s.check())
    return r, (s.model() if r == 'sat' else None), time.time() - t


def feasible(path_cond, extra=(), timeout_ms=10000):
    s = z3.Solver()
    s.set('timeout', timeout_ms)
    s.add(*path_cond, *extra)
    t = time.time()
    r = str(s.check())
    return r, (s.model() if r == 'sat' else None), time.time() - t


def mval(model, term):
    """float value of a term under a model (model completion on)"""
    v = model.eval(term, model_completion=True)
    if z3.is_true(v): return 1.0
    if z3.is_false(v): return 0.0
    if z3.is_rational_value(v):
        return float(v.as_fraction())
    if z3.is_algebraic_value(v):
        return float(v.approx(20).as_fraction())
    v = z3.simplify(v)
    if z3.is_rational_value(v):
        return float(v.as_fraction())
    raise ValueError(str(v))


def model_dict(model):
    out = {}
    for d in model.decls():
        if d.arity() == 0:
            try:
                out[d.name()] = mval(model, d())
            except Exception:
                out[d.name()] = str(model[d])
    return out


class NumpyProxy:
    """numpy for code under symbolic execution: identical to numpy except for the few functions that do not
    delegate to objects -- isnan (reals have no NaN) and isclose (|a-b| <= atol + rtol*|b|, numpy's definition)"""

    def __getattr__(self, k):
        return getattr(np, k)

    @staticmethod
    def _sym(x):
        return isinstance(x, (SR, SB)) or (isinstance(x, np.ndarray) and x.dtype == object)

    def isnan(self, x):
        if self._sym(x):
            return np.zeros(np.shape(x), dtype=bool) if isinstance(x, np.ndarray) else False
        return np.isnan(x)

    def isclose(self, a, b, rtol=1e-05, atol=1e-08, equal_nan=False):
        if not (self._sym(a) or self._sym(b)):
            return np.isclose(a, b, rtol=rtol, atol=atol, equal_nan=equal_nan)
        if isinstance(a, np.ndarray) or isinstance(b, np.ndarray):
            aa, bb = np.broadcast_arrays(np.asarray(a, dtype=object), np.asarray(b, dtype=object))
            out = np.empty(aa.shape, dtype=object)
            for idx in np.ndindex(aa.shape):
                out[idx] = self.isclose(aa[idx], bb[idx], rtol, atol)
            return out
        d = SR(lift(a) - lift(b))
        return SB(z3.And(lift(abs(d)) <= atol + rtol * lift(abs(SR(lift(b)))), True))


NPX = NumpyProxy()


class NumpyProxyObj(NumpyProxy):
    """additionally: freshly allocated arrays are object arrays, so that they can receive symbols
    (np.zeros(n) then item assignment is a frequent idiom in the code under test)"""

    def zeros(self, shape, dtype=None, **kw):
        a = np.empty(shape, dtype=object)
        a[...] = 0.0
        return a

    def ones(self, shape, dtype=None, **kw):
        a = np.empty(shape, dtype=object)
        a[...] = 1.0
        return a

    def zeros_like(self, x, dtype=None, **kw):
        return self.zeros(np.shape(x))

    def ones_like(self, x, dtype=None, **kw):
        return self.ones(np.shape(x))


NPXO = NumpyProxyObj()


def rebind(f, **globs):
    """the same function of /repo with some of its module globals replaced (never edits /repo)"""
    import types as _t
    g = dict(f.__globals__)
    g.update(globs)
    h = _t.FunctionType(f.__code__, g, f.__name__, f.__defaults__, f.__closure__)
    h.__kwdefaults__ = f.__kwdefaults__
    return h


class SymDict(dict):
    """a dict whose look-ups with a SYMBOLIC key compare against the stored keys by equality (each comparison forks);
    concrete keys behave as in a plain dict.  Stands in for idx -> uid / idx -> model maps when indices are symbols."""

    def _find(self, k):
        if not isinstance(k, (SR, SB)):
            return k if dict.__contains__(self, k) else _MISSING
        for key in dict.keys(self):
            if isinstance(key, (str, type(None))):
                continue
            if bool(k == key):
                return key
        return _MISSING

    def __contains__(self, k):
        return self._find(k) is not _MISSING

    def __getitem__(self, k):
        key = self._find(k)
        if key is _MISSING:
            raise KeyError(k)
        return dict.__getitem__(self, key)

    def get(self, k, default=None):
        key = self._find(k)
        return default if key is _MISSING else dict.__getitem__(self, key)


_MISSING = object()
