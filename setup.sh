#!/bin/bash
# Build the overlay venv (python 3.12 of /venv + z3/cvc5/crosshair from the offline wheelhouse).
set -e
cd "$(dirname "$0")"
V=/verif/.venv
if [ -x "$V/bin/python" ] && "$V/bin/python" -c "import z3, andes" >/dev/null 2>&1; then
  exit 0
fi
rm -rf "$V"
/venv/bin/python -m venv "$V" >/dev/null
SP=$("$V/bin/python" -c "import sysconfig; print(sysconfig.get_paths()['purelib'])")
echo "import site; site.addsitedir('/venv/lib/python3.12/site-packages')" > "$SP/base.pth"
PIP_NO_INDEX=1 "$V/bin/pip" install -q --no-index --find-links /opt/veriftools/wheels z3-solver crosshair-tool cvc5 >/dev/null 2>&1 || \
PIP_NO_INDEX=1 "$V/bin/pip" install -q --no-index --find-links /opt/veriftools/wheels z3-solver crosshair-tool >/dev/null 2>&1
"$V/bin/python" -c "import z3, andes; print('setup ok', z3.get_version_string())"
